package checks

// C07 helpers: builder-transformation ("veneer") chains generated relative to
// the builders of a pipeline, and the purity relation: no stage that is handed
// schemas (a language's pass chain, user passes, builder derivation, the
// veneer chain, nil-check generation) modifies them.

import (
	"fmt"
	"path/filepath"
	"sort"
	"strings"

	"github.com/grafana/cog/internal/ast"
	"github.com/grafana/cog/internal/languages"
	"github.com/grafana/cog/internal/veneers/rewrite"
	cogyaml "github.com/grafana/cog/internal/yaml"
	"github.com/grafana/cog/verifharness/cogx"
	"github.com/grafana/cog/verifharness/e2"
	"github.com/grafana/cog/verifharness/vlib"
	"github.com/grafana/cog/verifharness/walk"
	"pgregory.net/rapid"
)

func isCodeLanguage(l string) bool { return contains(cogx.CodeLanguages, l) }

// c07Derive loads the schemas of the case, runs lang's chain and derives the
// builders: what the veneers of the case are drawn against.
func c07Derive(c c07Case, lang string) (schemas ast.Schemas, builders ast.Builders, ok bool) {
	work := workDir("c07d")
	defer removeAll(work)
	_, _, panicked := vlib.Guard(func() {
		o := e2.OutputSpec{CommonPasses: c.Pipe.Config.CommonPasses}
		pl, err := c07NewPipeline(filepath.Join(work, "in"), c.specs(), o)
		if err != nil {
			return
		}
		loaded, err := e2.LoadSchemas(pl)
		if err != nil {
			return
		}
		schemas, err = cogx.NewLanguage(lang).CompilerPasses().Process(loaded)
		if err != nil {
			return
		}
		builders = (&ast.BuilderGenerator{}).FromAST(schemas)
		ok = true
	})
	return schemas, builders, ok && !panicked && len(builders) > 0
}

// typedRuleKinds lists the option rules that rebuild an option from the type
// of its first argument.
func typedRuleKinds(schemas ast.Schemas, o ast.Option) []string {
	if len(o.Args) == 0 {
		return nil
	}
	t := o.Args[0].Type
	var kinds []string
	switch {
	case t.IsScalar() && t.Scalar.ScalarKind == ast.KindBool:
		kinds = append(kinds, "unfold_boolean")
	case t.IsArray():
		kinds = append(kinds, "array_to_append")
	case t.IsMap():
		kinds = append(kinds, "map_to_index")
	}
	if t.IsDisjunction() || (t.IsRef() && resolveAll(schemas, t).IsStructGeneratedFromDisjunction()) {
		kinds = append(kinds, "disjunction_as_options")
	}
	// not on a struct that leads back to itself: with converters on, the PHP
	// converter template then recurses without end (the listed
	// C04-hang-php-Converter-Generate, which this check has no watchdog for)
	if st := resolveAll(schemas, t); st.Kind == ast.KindStruct && !c07StructReachesItself(schemas, st) {
		kinds = append(kinds, "struct_fields_as_arguments", "struct_fields_as_options")
	}
	return kinds
}

// c07StructReachesItself: following references from the fields of the struct
// leads to a struct already on the way (any cycle, not only through the
// struct itself).
func c07StructReachesItself(schemas ast.Schemas, st ast.Type) bool {
	onWay := map[string]bool{}
	var visit func(t ast.Type, depth int) bool
	visit = func(t ast.Type, depth int) bool {
		if depth > 40 {
			return true
		}
		switch {
		case t.IsRef():
			key := t.Ref.ReferredPkg + "." + t.Ref.ReferredType
			if onWay[key] {
				return true
			}
			obj, found := schemas.LocateObject(t.Ref.ReferredPkg, t.Ref.ReferredType)
			if !found {
				return false
			}
			onWay[key] = true
			defer delete(onWay, key)
			return visit(obj.Type, depth+1)
		case t.IsStruct():
			for _, f := range t.Struct.Fields {
				if visit(f.Type, depth+1) {
					return true
				}
			}
		case t.IsArray():
			return visit(t.Array.ValueType, depth+1)
		case t.IsMap():
			return visit(t.Map.ValueType, depth+1)
		case t.IsDisjunction():
			for _, b := range t.Disjunction.Branches {
				if visit(b, depth+1) {
					return true
				}
			}
		case t.IsIntersection():
			for _, b := range t.Intersection.Branches {
				if visit(b, depth+1) {
					return true
				}
			}
		}
		return false
	}
	return visit(st, 0)
}

// c07DrawVeneerRules draws a chain of 3-10 rules: mostly option rules whose
// kind fits the type of the option they select (half of the time an option
// carrying a default value), the rest any rule of C17's generator (builder
// rules, renames, omissions, duplicates, absent and case-flipped targets).
func c07DrawVeneerRules(rt *rapid.T, lang string, schemas ast.Schemas, builders ast.Builders) []c17Rule {
	type cand struct {
		b    ast.Builder
		o    ast.Option
		kind string
	}
	var typed, typedWithDefault []cand
	for _, b := range builders {
		for _, o := range b.Options {
			for _, k := range typedRuleKinds(schemas, o) {
				typed = append(typed, cand{b, o, k})
				if o.Default != nil {
					typedWithDefault = append(typedWithDefault, cand{b, o, k})
				}
			}
		}
	}
	n := rapid.IntRange(3, 10).Draw(rt, "nrules")
	var rules []c17Rule
	for i := 0; i < n; i++ {
		if len(typed) == 0 || rapid.IntRange(0, 3).Draw(rt, "anyrule") == 0 {
			// (struct_fields_* rules only come from the typed candidates above,
			// which stay away from structs that lead back to themselves)
			r := c17DrawRule(rt, lang, schemas, builders, rules)
			if strings.HasPrefix(r.Kind, "struct_fields_") {
				continue
			}
			// nor is the builder of such a struct omitted: its values are then
			// passed as plain objects, which the PHP converter expands without end
			if r.On == "builder" && r.Kind == "omit" {
				cyclic := false
				for _, b := range builders {
					if (strings.EqualFold(b.Name, r.SelA) || strings.EqualFold(b.For.Name, r.SelA) || r.SelKind == "generated_from_disjunction" || r.SelKind == "by_variant") && c07StructReachesItself(schemas, b.For.Type) {
						cyclic = true
					}
				}
				if cyclic {
					continue
				}
			}
			rules = append(rules, r)
			continue
		}
		from := typed
		if len(typedWithDefault) > 0 && rapid.Bool().Draw(rt, "withdefault") {
			from = typedWithDefault
		}
		pick := from[rapid.IntRange(0, len(from)-1).Draw(rt, "typedrule")]
		r := c17Rule{Scope: rapid.SampledFrom([]string{"all", "all", lang}).Draw(rt, "scope"), On: "option", Kind: pick.kind, Pkg: pick.b.Package, TargetClass: "exact", SelOpts: []string{pick.o.Name}}
		if rapid.Bool().Draw(rt, "bybuilder") {
			r.SelKind, r.SelA = "opt_by_builder", pick.b.Name
		} else {
			r.SelKind, r.SelA = "opt_by_name", pick.b.For.Name
		}
		switch r.Kind {
		case "unfold_boolean":
			r.TrueAs, r.FalseAs = "enable"+pick.o.Name, "disable"+pick.o.Name
		case "struct_fields_as_arguments", "struct_fields_as_options":
			// explicit fields: a non-empty subset, one time in three
			if st := resolveAll(schemas, pick.o.Args[0].Type); st.Kind == ast.KindStruct && len(st.Struct.Fields) > 1 && rapid.IntRange(0, 2).Draw(rt, "explicitfields") == 0 {
				for _, f := range st.Struct.Fields {
					if rapid.Bool().Draw(rt, "field") {
						r.Names = append(r.Names, f.Name)
					}
				}
			}
		}
		rules = append(rules, r)
	}
	return rules
}

// veneerContents renders the rules as veneer files, in a fixed order.
func veneerContents(rules []c17Rule) []string {
	files := c17VeneerFiles(rules)
	names := make([]string, 0, len(files))
	for n := range files {
		names = append(names, n)
	}
	sort.Strings(names)
	out := make([]string, 0, len(names))
	for _, n := range names {
		out = append(out, files[n])
	}
	return out
}

// c07Purity runs every stage of Pipeline.Run that is handed schemas, one by
// one, and compares a canonical snapshot of what the stage was handed before
// and after it.
func c07Purity(run *vlib.Run, c c07Case, work string, eval func(tags ...string)) []vlib.Violation {
	var out []vlib.Violation
	mutated := func(sig, what string, before string, now any, err error) (string, bool) {
		after := walk.Canon(now)
		if after == before {
			return before, false
		}
		out = append(out, vlib.V(sig, "%s (error=%v): %s", what, err, canonDelta(before, after)))
		return after, true
	}
	_, msg, panicked := vlib.Guard(func() {
		// the pipeline-level transformations are applied by hand below
		pl, err := c07NewPipeline(filepath.Join(work, "in"), c.specs(), e2.OutputSpec{Veneers: c.Pipe.Config.Veneers, CommonPasses: c.Pipe.Config.CommonPasses})
		if err != nil {
			return
		}
		commonFiles := pl.Transforms.CommonPassesFiles
		pl.Transforms.CommonPassesFiles = nil
		schemas, err := e2.LoadSchemas(pl)
		if err != nil {
			count(run, "rejected", 1)
			return
		}
		count(run, "programs", 1)
		if len(commonFiles) > 0 {
			passes, err := cogyaml.NewCompilerLoader().PassesFrom(commonFiles)
			if err != nil {
				count(run, "rejected", 1)
				return
			}
			before := walk.Canon(schemas)
			processed, perr := passes.Process(schemas)
			mutated("purity:schemas-mutated:common-passes", "the schemas handed to the pipeline's common transformations were modified by them", before, schemas, perr)
			eval("purity:common-passes")
			if perr != nil {
				return
			}
			schemas = processed
		}
		var rewriter *rewrite.Rewriter
		if len(c.Pipe.Config.Veneers) > 0 {
			files, _ := filepath.Glob(filepath.Join(work, "in", "veneers", "*.yaml"))
			sort.Strings(files)
			rw, err := cogyaml.NewVeneersLoader().RewriterFrom(files, rewrite.Config{})
			if err != nil {
				count(run, "veneers_refused_by_loader", 1)
			} else {
				rewriter = rw
			}
		}
		loaded := walk.Canon(schemas)
		for _, l := range c.Pipe.Languages {
			language := cogx.NewLanguage(l)
			var cerr error
			var ls ast.Schemas
			ls, cerr = language.CompilerPasses().Process(schemas)
			var changed bool
			if loaded, changed = mutated("purity:schemas-mutated:"+l, fmt.Sprintf("the schemas handed to the %s pass chain were modified by it", l), loaded, schemas, cerr); changed {
				continue
			}
			eval("purity:" + l)
			if cerr != nil || !c.Pipe.Config.Builders || !isCodeLanguage(l) {
				continue
			}
			handed := walk.Canon(ls)
			builders := (&ast.BuilderGenerator{}).FromAST(ls)
			if handed, changed = mutated("purity:builder-derivation-mutates-schemas:"+l, fmt.Sprintf("the schemas builders were derived from (%s) were modified by the derivation", l), handed, ls, nil); changed {
				continue
			}
			if rewriter != nil {
				var verr error
				var rewritten []ast.Builder
				rewritten, verr = rewriter.ApplyTo(ls, builders, language.Name())
				if verr != nil {
					count(run, "veneers_refused", 1)
				} else {
					count(run, "veneer_chains_applied", 1)
					if walk.Canon(ast.Builders(rewritten)) != walk.Canon(builders) {
						count(run, "veneer_chains_with_effect", 1)
					}
				}
				if handed, changed = mutated("purity:veneers-mutate-schemas:"+l, fmt.Sprintf("the schemas handed to the veneer chain (Rewriter.ApplyTo, %s) were modified by it", l), handed, ls, verr); changed {
					continue
				}
				eval("purity:veneers:" + l)
				if verr != nil {
					continue
				}
				builders = rewritten
			}
			_, nerr := languages.GenerateBuilderNilChecks(language, languages.Context{Schemas: ls, Builders: builders})
			if handed, changed = mutated("purity:nilchecks-mutate-schemas:"+l, fmt.Sprintf("the schemas handed to the nil-check generation (%s) were modified by it", l), handed, ls, nerr); changed {
				continue
			}
			// whatever ran on the language's copy must not reach the shared schemas
			if loaded, changed = mutated("purity:schemas-mutated:"+l+":builders", fmt.Sprintf("builder derivation / veneers / nil checks of %s modified the schemas shared by all languages", l), loaded, schemas, nil); changed {
				continue
			}
		}
	})
	if panicked {
		count(run, "skipped_panics", 1)
		note(run, "panic in a chain: %s", firstLine(msg))
	}
	return dedupeViolations(out)
}

// canonDelta shows where two canonical snapshots part.
func canonDelta(before, after string) string {
	i := 0
	for i < len(before) && i < len(after) && before[i] == after[i] {
		i++
	}
	from := max(0, i-90)
	cut := func(s string) string {
		to := min(len(s), i+70)
		if from > to {
			return ""
		}
		return s[from:to]
	}
	return fmt.Sprintf("before: …%s… after: …%s…", cut(before), cut(after))
}
