package checks

// C19 — the insertion-ordered map behaves like a map with first-insertion
// order. Oracle: a slice-of-pairs reference model that shares no code with
// cog. Search: (1) bounded-exhaustive enumeration of all operation sequences
// up to a length bound, (2) rapid state machine for long random sequences.
// Keys are not only identifiers: what a key contains matters to MarshalJSON /
// UnmarshalJSON, so both searches use keys that JSON has to escape and JSON
// texts that spell member names with escapes (c19_keys_test.go).

import (
	"bytes"
	"encoding/json"
	"fmt"
	"reflect"
	"sort"
	"strings"
	"testing"

	"github.com/grafana/cog/internal/orderedmap"
	"github.com/grafana/cog/verifharness/vlib"
	"pgregory.net/rapid"
)

type omOp struct {
	Kind string `json:"kind"`
	K    string `json:"k,omitempty"`
	V    int    `json:"v,omitempty"`
	// Pairs: for set_many (inserted in order) and decode_new/decode_zero (the
	// members of the JSON text, duplicates allowed)
	Pairs []omKV `json:"pairs,omitempty"`
	// Ws: white space style of the JSON text of decode_new/decode_zero
	Ws int `json:"ws,omitempty"`
}

// Keys (omOp.K, omKV.K) are stored in the printable lossless spelling of
// c19EncKey (see c19_keys_test.go); c19RawOps gives the operations as executed.
type omKV struct {
	K string `json:"k"`
	V int    `json:"v"`
	// Lit: for decode_new/decode_zero, the JSON string literal that spells the
	// key in the text ("" = the plainest spelling)
	Lit string `json:"lit,omitempty"`
}

func (o omOp) String() string {
	switch o.Kind {
	case "set":
		return fmt.Sprintf("set(%s,%d)", o.K, o.V)
	case "remove":
		return fmt.Sprintf("remove(%s)", o.K)
	case "set_many", "decode_new", "decode_zero":
		return fmt.Sprintf("%s%v", o.Kind, o.Pairs)
	}
	return o.Kind
}

type c19Case struct {
	Ops []omOp `json:"ops"`
}

type pair struct {
	k string
	v int
}

// --- reference model -------------------------------------------------------

type omModel []pair

func (m omModel) find(k string) int {
	for i, p := range m {
		if p.k == k {
			return i
		}
	}
	return -1
}

func (m omModel) apply(op omOp) omModel {
	switch op.Kind {
	case "set":
		if i := m.find(op.K); i >= 0 {
			out := append(omModel{}, m...)
			out[i].v = op.V
			return out
		}
		return append(append(omModel{}, m...), pair{op.K, op.V})
	case "remove":
		out := omModel{}
		for _, p := range m {
			if p.k != op.K {
				out = append(out, p)
			}
		}
		return out
	case "filter_v1": // keep entries whose value is odd
		out := omModel{}
		for _, p := range m {
			if p.v%2 == 1 {
				out = append(out, p)
			}
		}
		return out
	case "filter_not_first_key": // drop key "a"
		out := omModel{}
		for _, p := range m {
			if p.k != "a" {
				out = append(out, p)
			}
		}
		return out
	case "map_flip": // v -> 1-v
		out := omModel{}
		for _, p := range m {
			out = append(out, pair{p.k, 1 - p.v})
		}
		return out
	case "sort_asc", "sort_desc":
		out := append(omModel{}, m...)
		// insertion sort: trivially stable
		less := func(a, b string) bool { return a < b }
		if op.Kind == "sort_desc" {
			less = func(a, b string) bool { return a > b }
		}
		for i := 1; i < len(out); i++ {
			for j := i; j > 0 && less(out[j].k, out[j-1].k); j-- {
				out[j], out[j-1] = out[j-1], out[j]
			}
		}
		return out
	case "sort_const": // less is always false: order must not change
		return append(omModel{}, m...)
	case "sort_tie_asc", "sort_tie_desc": // compares the first byte only: ties keep their order
		out := append(omModel{}, m...)
		less := func(a, b string) bool { return firstByte(a) < firstByte(b) }
		if op.Kind == "sort_tie_desc" {
			less = func(a, b string) bool { return firstByte(a) > firstByte(b) }
		}
		for i := 1; i < len(out); i++ {
			for j := i; j > 0 && less(out[j].k, out[j-1].k); j-- {
				out[j], out[j-1] = out[j-1], out[j]
			}
		}
		return out
	case "set_many":
		out := append(omModel{}, m...)
		for _, p := range op.Pairs {
			out = out.apply(omOp{Kind: "set", K: p.K, V: p.V})
		}
		return out
	case "decode_new", "decode_zero": // a fresh map decoded from a JSON text
		out := omModel{}
		for _, p := range op.Pairs {
			out = out.apply(omOp{Kind: "set", K: c19JSONKey(p.K), V: p.V})
		}
		return out
	case "json_new", "json_zero":
		// the members of the text in order, read like successive Set calls. A
		// key is carried by the text as c19JSONKey(key): itself, unless it is
		// not UTF-8 (two such keys may then fall together).
		out := omModel{}
		for _, p := range m {
			out = out.apply(omOp{Kind: "set", K: c19JSONKey(p.k), V: p.v})
		}
		return out
	case "from_map":
		out := append(omModel{}, m...)
		sort.Slice(out, func(i, j int) bool { return out[i].k < out[j].k })
		return out
	}
	panic("unknown op " + op.Kind)
}

// --- implementation under test --------------------------------------------

type omImpl = *orderedmap.Map[string, int]

func omApply(m omImpl, op omOp) (omImpl, error) {
	switch op.Kind {
	case "set":
		m.Set(op.K, op.V)
	case "remove":
		m.Remove(op.K)
	case "filter_v1":
		return m.Filter(func(_ string, v int) bool { return v%2 == 1 }), nil
	case "filter_not_first_key":
		return m.Filter(func(k string, _ int) bool { return k != "a" }), nil
	case "map_flip":
		return m.Map(func(_ string, v int) int { return 1 - v }), nil
	case "sort_asc":
		m.Sort(orderedmap.SortStrings)
	case "sort_desc":
		m.Sort(func(i, j string) bool { return i > j })
	case "sort_const":
		m.Sort(func(i, j string) bool { return false })
	case "sort_tie_asc":
		m.Sort(func(i, j string) bool { return firstByte(i) < firstByte(j) })
	case "sort_tie_desc":
		m.Sort(func(i, j string) bool { return firstByte(i) > firstByte(j) })
	case "set_many":
		for _, p := range op.Pairs {
			m.Set(p.K, p.V)
		}
	case "decode_new", "decode_zero":
		text := c19DecodeText(op)
		var dst omImpl
		if op.Kind == "decode_new" {
			dst = orderedmap.New[string, int]()
		} else {
			dst = &orderedmap.Map[string, int]{}
		}
		if err := json.Unmarshal([]byte(text), dst); err != nil {
			return m, fmt.Errorf("UnmarshalJSON(%q): %w", text, err)
		}
		return dst, nil
	case "json_new", "json_zero":
		raw, err := m.MarshalJSON()
		if err != nil {
			return m, fmt.Errorf("MarshalJSON: %w", err)
		}
		var dst omImpl
		if op.Kind == "json_new" {
			dst = orderedmap.New[string, int]()
		} else {
			dst = &orderedmap.Map[string, int]{}
		}
		if err := json.Unmarshal(raw, dst); err != nil {
			return m, fmt.Errorf("UnmarshalJSON(%q): %w", raw, err)
		}
		return dst, nil
	case "from_map":
		plain := map[string]int{}
		m.Iterate(func(k string, v int) { plain[k] = v })
		return orderedmap.FromMap(plain), nil
	default:
		panic("unknown op " + op.Kind)
	}
	return m, nil
}

// orderedPairsFromJSON parses a JSON object keeping key order.
func orderedPairsFromJSON(raw []byte) ([]pair, error) {
	dec := json.NewDecoder(bytes.NewReader(raw))
	tok, err := dec.Token()
	if err != nil {
		return nil, err
	}
	if d, ok := tok.(json.Delim); !ok || d != '{' {
		return nil, fmt.Errorf("not an object")
	}
	var out []pair
	for dec.More() {
		kt, err := dec.Token()
		if err != nil {
			return nil, err
		}
		k, ok := kt.(string)
		if !ok {
			return nil, fmt.Errorf("key is %T", kt)
		}
		var v int
		if err := dec.Decode(&v); err != nil {
			return nil, err
		}
		out = append(out, pair{k, v})
	}
	if _, err := dec.Token(); err != nil {
		return nil, err
	}
	if dec.More() {
		return nil, fmt.Errorf("trailing data")
	}
	return out, nil
}

func pairsEq(a, b []pair) bool {
	if len(a) != len(b) {
		return false
	}
	for i := range a {
		if a[i] != b[i] {
			return false
		}
	}
	return true
}

func fmtPairs(ps []pair) string {
	var sb strings.Builder
	sb.WriteString("[")
	for i, p := range ps {
		if i > 0 {
			sb.WriteString(" ")
		}
		if c19EncKey(p.k) == p.k && p.k != "" && !strings.ContainsAny(p.k, " =[]\"") {
			fmt.Fprintf(&sb, "%s=%d", p.k, p.v)
		} else {
			fmt.Fprintf(&sb, "%q=%d", p.k, p.v)
		}
	}
	sb.WriteString("]")
	return sb.String()
}

// omObserve compares every observation of the implementation with the model.
// viaIface: also encode through json.Marshal(map) (implied by the validity of
// what MarshalJSON returns; only done in the random search).
func omObserve(m omImpl, model omModel, alphabet []string, viaIface bool) []vlib.Violation {
	var vs []vlib.Violation
	bad := func(obs string, format string, args ...any) {
		vs = append(vs, vlib.V("observation:"+obs, format, args...))
	}
	if m.Len() != len(model) {
		bad("len", "Len()=%d, model has %d live keys %s", m.Len(), len(model), fmtPairs(model))
	}
	for _, k := range alphabet {
		i := model.find(k)
		if m.Has(k) != (i >= 0) {
			bad("has", "Has(%q)=%v, model %v", k, m.Has(k), i >= 0)
		}
		want := 0
		if i >= 0 {
			want = model[i].v
		}
		if got := m.Get(k); got != want {
			bad("get", "Get(%q)=%d, model %d", k, got, want)
		}
	}
	var it []pair
	m.Iterate(func(k string, v int) { it = append(it, pair{k, v}) })
	if !pairsEq(it, model) {
		bad("iterate", "Iterate gives %s, model %s", fmtPairs(it), fmtPairs(model))
	}
	vals := m.Values()
	if len(vals) != len(model) {
		bad("values", "Values() has %d entries, model %d", len(vals), len(model))
	} else {
		for i := range vals {
			if vals[i] != model[i].v {
				bad("values", "Values()[%d]=%d, model %d", i, vals[i], model[i].v)
			}
		}
	}
	if m.Len() == len(model) {
		for i := range model {
			if got := m.At(i); got != model[i].v {
				bad("at", "At(%d)=%d, model %d", i, got, model[i].v)
			}
		}
	}
	// What MarshalJSON writes is a JSON text (by the grammar, whatever the
	// keys are) whose members, read in order, are the model's pairs; a key is
	// carried as c19JSONKey(key).
	wantJSON := make([]pair, len(model))
	for i, p := range model {
		wantJSON[i] = pair{c19JSONKey(p.k), p.v}
	}
	raw, err := m.MarshalJSON()
	if err != nil {
		bad("marshal", "MarshalJSON error: %v (model %s)", err, fmtPairs(model))
	} else if !json.Valid(raw) {
		bad("marshal", "MarshalJSON output %q is not valid JSON (model %s)", raw, fmtPairs(model))
	} else {
		ps, perr := orderedPairsFromJSON(raw)
		if perr != nil {
			bad("marshal", "MarshalJSON output %q is not a JSON object: %v", raw, perr)
		} else if !pairsEq(ps, wantJSON) {
			bad("marshal", "MarshalJSON output %q reads as %s, model %s", raw, fmtPairs(ps), fmtPairs(wantJSON))
		}
		// the same through the json.Marshaler interface
		if !viaIface {
			// nothing more
		} else if out, err := json.Marshal(m); err != nil {
			bad("marshal", "json.Marshal(map) error: %v (model %s)", err, fmtPairs(model))
		} else if ps, perr := orderedPairsFromJSON(out); perr != nil || !pairsEq(ps, wantJSON) {
			bad("marshal", "json.Marshal(map) gives %q, which reads as %s (%v), model %s", out, fmtPairs(ps), perr, fmtPairs(wantJSON))
		}
	}
	// Equal against an independently built map with the model's content.
	ref := orderedmap.New[string, int]()
	for _, p := range model {
		ref.Set(p.k, p.v)
	}
	if len(vs) == 0 && (!m.Equal(ref) || !ref.Equal(m)) {
		// nil vs empty internal slices are tolerated by cmp? they are not: check
		// only when non-empty to stay within what the property states.
		if len(model) > 0 {
			bad("equal", "Equal() is false against a map holding the same pairs in the same order %s", fmtPairs(model))
		}
	}
	// internal bijection order <-> records
	rv := reflect.ValueOf(m).Elem()
	order, records := rv.FieldByName("order"), rv.FieldByName("records")
	if order.IsValid() && records.IsValid() {
		seen := map[string]bool{}
		for i := 0; i < order.Len(); i++ {
			k := order.Index(i).String()
			if seen[k] {
				bad("internal", "key %q occurs twice in the order slice", k)
			}
			seen[k] = true
			if !records.MapIndex(order.Index(i)).IsValid() {
				bad("internal", "key %q is in order but not in records", k)
			}
		}
		if records.Len() != order.Len() {
			bad("internal", "records has %d keys, order has %d", records.Len(), order.Len())
		}
	}
	return vs
}

// c19State is the map under test plus the maps it was derived from
// ("shadows"): every map ever produced must keep behaving like its own model,
// whatever is done to the others.
type c19State struct {
	cur     omImpl
	model   omModel
	shadows []c19Shadow
}

type c19Shadow struct {
	m     omImpl
	model omModel
}

func derivesNewMap(kind string) bool {
	switch kind {
	case "filter_v1", "filter_not_first_key", "map_flip", "json_new", "json_zero", "from_map", "decode_new", "decode_zero":
		return true
	}
	return false
}

// c19Exec executes a sequence against implementation and model. When
// observeAll is false only the state after the last step is observed (used by
// the exhaustive enumeration, where every prefix is observed at its own node).
func c19Exec(c c19Case, alphabet []string, observeAll bool) []vlib.Violation {
	st := c19State{cur: orderedmap.New[string, int](), model: omModel{}}
	rawOps := c19RawOps(c.Ops)
	if err := c19CheckLits(rawOps); err != nil {
		panic("C19: malformed case: " + err.Error())
	}
	for i, op := range rawOps {
		if op.Kind == "swap" {
			if n := len(st.shadows); n > 0 {
				sh := st.shadows[n-1]
				st.shadows[n-1] = c19Shadow{st.cur, st.model}
				st.cur, st.model = sh.m, sh.model
			}
		} else {
			var err error
			var next omImpl
			sig, msg, panicked := vlib.Guard(func() { next, err = omApply(st.cur, op) })
			if panicked {
				return []vlib.Violation{vlib.V("panic:"+op.Kind+":len"+lenClass(len(st.model))+":"+sig, "step %d %s on %s panicked: %s (ops %v)", i, c.Ops[i], fmtPairs(st.model), msg, c.Ops[:i+1])}
			}
			if err != nil {
				return []vlib.Violation{vlib.V("error:"+op.Kind, "step %d %s on %s: %v (ops %v)", i, c.Ops[i], fmtPairs(st.model), err, c.Ops[:i+1])}
			}
			if derivesNewMap(op.Kind) {
				st.shadows = append(st.shadows, c19Shadow{st.cur, st.model})
				if len(st.shadows) > 2 {
					st.shadows = st.shadows[len(st.shadows)-2:]
				}
			}
			st.cur = next
			st.model = st.model.apply(op)
		}
		if !observeAll && i != len(c.Ops)-1 {
			continue
		}
		var vs []vlib.Violation
		sig, msg, panicked := vlib.Guard(func() {
			vs = omObserve(st.cur, st.model, alphabet, observeAll)
			for _, sh := range st.shadows {
				for _, v := range omObserve(sh.m, sh.model, alphabet, observeAll) {
					v.Sig = "shadow:" + v.Sig
					v.Msg = "a map this one was derived from (or that was derived from it) changed: " + v.Msg
					vs = append(vs, v)
				}
			}
		})
		if panicked {
			return []vlib.Violation{vlib.V("panic:observe:"+sig, "observing after step %d %s panicked: %s (ops %v)", i, c.Ops[i], msg, c.Ops[:i+1])}
		}
		if len(vs) > 0 {
			for j := range vs {
				vs[j].Sig = vs[j].Sig + ":after:" + op.Kind
				vs[j].Msg = fmt.Sprintf("after step %d %s (ops %v): %s", i, c.Ops[i], c.Ops[:i+1], vs[j].Msg)
			}
			return vs
		}
	}
	if observeAll && len(st.model) > 0 {
		var vs []vlib.Violation
		sig, msg, panicked := vlib.Guard(func() { vs = c19ObserveTwin(st.model) })
		if panicked {
			return []vlib.Violation{vlib.V("panic:observe_twin:"+sig, "encoding / decoding a map[string]string with the keys of %s panicked: %s (ops %v)", fmtPairs(st.model), msg, c.Ops)}
		}
		for j := range vs {
			vs[j].Msg = fmt.Sprintf("after ops %v: %s", c.Ops, vs[j].Msg)
		}
		return vs
	}
	return nil
}

var c19RandomAlphabet = func() []string {
	var out []string
	for _, a := range []string{"a", "b", "c", "d"} {
		for _, n := range []string{"", "1", "2", "3", "4", "5"} {
			out = append(out, a+n)
		}
	}
	return out
}()

// c19Check observes Has/Get for the fixed alphabet and for every key the case
// mentions (as stored and as a JSON text carries it).
func c19Check(c c19Case) []vlib.Violation {
	alphabet := append([]string{}, c19RandomAlphabet...)
	seen := map[string]bool{}
	for _, k := range alphabet {
		seen[k] = true
	}
	add := func(k string) {
		for _, k := range []string{k, c19JSONKey(k)} {
			if !seen[k] {
				seen[k] = true
				alphabet = append(alphabet, k)
			}
		}
	}
	for _, op := range c19RawOps(c.Ops) {
		if op.Kind == "set" || op.Kind == "remove" {
			add(op.K)
		}
		for _, p := range op.Pairs {
			add(p.K)
		}
	}
	return c19Exec(c, alphabet, true)
}

func lenClass(n int) string {
	if n == 0 {
		return "0"
	}
	return "N"
}

func c19Nontrivial(c c19Case) bool {
	// an overwrite, or a removal / derived map / sort / encode after at least
	// two insertions
	sets, interesting := 0, false
	seen := map[string]bool{}
	for _, op := range c.Ops {
		switch op.Kind {
		case "set":
			if seen[op.K] {
				interesting = interesting || sets >= 2
			}
			seen[op.K] = true
			sets++
		case "set_many", "decode_new", "decode_zero":
			for _, p := range op.Pairs {
				if seen[p.K] {
					interesting = interesting || sets >= 2
				}
				seen[p.K] = true
				sets++
			}
		default:
			if sets >= 2 {
				interesting = true
			}
		}
	}
	return interesting
}

// exhaustive alphabet: keys a, a<BEL>"\<DEL><U+E0001>, b. The second key ties
// with a under the first-byte comparator and sorts between a and b; it holds a
// control character that has no two-character escape, the two characters JSON
// must escape, DEL, and a rune outside the BMP that is not printable.
const c19WeirdKey = "a\x07\"\\\x7f\U000e0001"

var c19ExhaustiveKeys = []string{"a", c19WeirdKey, "b"}

var c19ExhaustiveOps = func() []omOp {
	var ops []omOp
	for _, k := range c19ExhaustiveKeys {
		for _, v := range []int{0, 1} {
			ops = append(ops, omOp{Kind: "set", K: c19EncKey(k), V: v})
		}
	}
	for _, k := range c19ExhaustiveKeys {
		ops = append(ops, omOp{Kind: "remove", K: c19EncKey(k)})
	}
	for _, k := range []string{"filter_v1", "filter_not_first_key", "map_flip", "sort_asc", "sort_desc", "sort_const", "sort_tie_desc", "json_new", "json_zero", "from_map", "swap"} {
		ops = append(ops, omOp{Kind: k})
	}
	w := c19EncKey(c19WeirdKey)
	// the repeated members are spelled differently
	ops = append(ops, omOp{Kind: "decode_new", Pairs: []omKV{{K: "b", V: 1}, {K: "a", V: 0}, {K: "b", V: 0, Lit: `"\u0062"`}}})
	ops = append(ops, omOp{Kind: "decode_zero", Ws: 2, Pairs: []omKV{{K: w, V: 1}, {K: w, V: 0, Lit: `"a\u0007\u0022\\\u007F\uDB40\uDC01"`}, {K: "a", V: 1}}})
	return ops
}()

func TestC19(t *testing.T) {
	run := vlib.Begin(t, "C19")
	defer run.Finish(t)
	run.Describe(
		"(1) every sequence over 22 concrete operations (set k to 0|1 and remove k for the three keys a, b and a<BEL>\"\\<DEL><U+E0001> -- a key holding a control character without two-character escape, the two characters JSON must escape, DEL and a non-printable rune outside the BMP --, 2 filters, map, 4 sorts incl. one whose comparator has ties, JSON round-trip into New() and into the zero value, FromMap, decoding two JSON texts with repeated members that are spelled differently (\\uXXXX, surrogate pair, white space around every token), swap to the map the current one was derived from) up to the length bound; after the last step of every sequence the complete API of the current map AND of the maps it was derived from is compared with the model (Len, Has/Get for every key, Iterate, Values, At(i) in range, MarshalJSON, Equal, internal order/records bijection). MarshalJSON: the output is valid JSON by the grammar (json.Valid), its members read in order with an independent token reader are the model's pairs. (2) rapid sequences up to length 60 over the 24 plain keys plus, per sequence, a pool of up to 6 generated hostile keys (prefix a|b|c|d|none + up to 3 atoms: a byte of each class C0 control / DEL / not UTF-8 / ASCII, a rune from a list of JSON, UTF-8, UTF-16 and printability borders, any rune, text that looks like an escape of some notation; the empty key), with bulk inserts (so sorts see more than 12 keys with ties); the JSON texts that are decoded spell each member name rune by rune as is / two-character escape / \\uXXXX upper or lower case / surrogate pair, in three white space styles; Has/Get are observed for the plain keys and every key the sequence mentions; json.Marshal(map) must succeed and read as the model's pairs too; at the end of a sequence the same keys are also put in a map[string]string whose values are those keys, which must encode to valid JSON reading as these pairs and decode back to them. Non-trivial: the sequence overwrites a key or removes/derives/sorts/encodes after at least two insertions; distinct by the operation sequence.",
		"At(i) is only called for 0<=i<Len (out-of-range index is a caller error)",
		"UnmarshalJSON is only exercised on a New() map or the zero value (decoding into a populated map is outside the constructor contract), and only on valid UTF-8 JSON texts; a JSON text with a repeated member is decoded like successive Set calls",
		"Set on a zero-value (non constructed) map is not generated",
		"Equal is only required between maps holding at least one pair",
		"a map derived with Filter/Map/FromMap/decoding is independent of its source: later operations on either must not show through the other",
		"which escapes MarshalJSON chooses is free: only what the text reads as is compared",
		"a key that is not UTF-8 cannot be carried by a JSON text: it is expected to be written as encoding/json writes it for a plain map[string]V, every byte outside a UTF-8 sequence as U+FFFD; keys that fall together that way are read back like successive Set calls. Every other operation treats such keys as the distinct byte strings they are",
	)
	if vlib.RunReplay(t, run, c19Check) {
		return
	}

	// (1) bounded exhaustive; in the thorough tier the first operation is
	// partitioned over the shards.
	maxLen := 4
	shard, shards := 0, 1
	if vlib.Thorough() {
		maxLen = 5
		shard, shards = getenvInt("VERIF_SHARD", 0), getenvInt("VERIF_SHARDS", 1)
	}
	states := map[string]struct{}{}
	transitions := 0
	var failed []vlib.Violation
	var rec func(prefix []omOp, model omModel)
	rec = func(prefix []omOp, model omModel) {
		if failed != nil {
			return
		}
		states[fmtPairs(model)] = struct{}{}
		if len(prefix) == maxLen {
			return
		}
		for oi, op := range c19ExhaustiveOps {
			if len(prefix) == 0 && oi%shards != shard {
				continue
			}
			seq := append(append([]omOp{}, prefix...), op)
			c := c19Case{Ops: seq}
			transitions++
			vs := c19Exec(c, c19ExhaustiveKeys, false)
			key := uint64(0)
			if c19Nontrivial(c) {
				key = vlib.Hash(c)
			}
			run.Eval(key, "exhaustive")
			if transitions%40009 == 1 {
				run.Sample(map[string]any{"ops": fmt.Sprint(seq)})
			}
			if un := run.Judge(c, vs); len(un) > 0 {
				failed = un
				return
			}
			if len(vs) > 0 {
				continue // known finding: do not extend a sequence past it
			}
			nm := model
			if op.Kind != "swap" {
				nm = model.apply(c19RawOp(op))
			}
			rec(seq, nm)
		}
	}
	rec(nil, omModel{})
	run.SetExhaustive(len(states), transitions)
	run.SetExtra("exhaustive_max_len", maxLen)
	if failed != nil {
		vlib.Fail(t, failed)
		return
	}

	// (2) random long sequences
	// keys: the 24 plain keys, plus a pool of up to 6 hostile keys drawn per
	// sequence (so that they are overwritten, removed and decoded again, not
	// only inserted). Stored in the case in their printable spelling.
	hostile := c19HostileKeyGen()
	kinds := rapid.SampledFrom([]string{"set", "set", "set", "set_many", "set_many", "remove", "remove", "filter_v1", "filter_not_first_key", "map_flip", "sort_asc", "sort_desc", "sort_const", "sort_tie_asc", "sort_tie_desc", "json_new", "json_zero", "from_map", "swap", "decode_new", "decode_zero"})
	rapid.Check(t, func(rt *rapid.T) {
		pool := rapid.SliceOfN(hostile, 0, 6).Draw(rt, "hostile_keys")
		keys := rapid.Custom(func(rt *rapid.T) string {
			i := rapid.IntRange(0, len(c19RandomAlphabet)+3*len(pool)-1).Draw(rt, "key")
			if i < len(c19RandomAlphabet) {
				return c19RandomAlphabet[i]
			}
			return c19EncKey(pool[(i-len(c19RandomAlphabet))%len(pool)])
		})
		pairGen := rapid.Custom(func(rt *rapid.T) omKV {
			return omKV{K: keys.Draw(rt, "k"), V: rapid.IntRange(0, 3).Draw(rt, "v")}
		})
		// a member of a JSON text: half of the time the key is spelled with
		// escapes chosen rune by rune
		memberGen := rapid.Custom(func(rt *rapid.T) omKV {
			kv := pairGen.Draw(rt, "member")
			if rapid.Bool().Draw(rt, "spelled") {
				kv.Lit = c19DrawLit(rt, c19DecKey(kv.K))
				if kv.Lit == c19CanonLit(c19DecKey(kv.K)) {
					kv.Lit = ""
				}
			}
			return kv
		})
		n := rapid.IntRange(1, 60).Draw(rt, "n")
		c := c19Case{}
		for i := 0; i < n; i++ {
			op := omOp{Kind: kinds.Draw(rt, "kind")}
			switch op.Kind {
			case "set":
				op.K = keys.Draw(rt, "k")
				op.V = rapid.IntRange(0, 3).Draw(rt, "v")
			case "remove":
				op.K = keys.Draw(rt, "k")
			case "set_many":
				op.Pairs = rapid.SliceOfN(pairGen, 4, 24).Draw(rt, "pairs")
			case "decode_new", "decode_zero":
				op.Pairs = rapid.SliceOfN(memberGen, 0, 8).Draw(rt, "pairs")
				op.Ws = rapid.IntRange(0, 2).Draw(rt, "ws")
			}
			c.Ops = append(c.Ops, op)
		}
		vs := c19Check(c)
		key := uint64(0)
		if c19Nontrivial(c) {
			key = vlib.Hash(c)
		}
		labels := []string{"random", fmt.Sprintf("random_len_%d0s", len(c.Ops)/10)}
		labels = append(labels, c19Labels(c)...)
		run.Eval(key, labels...)
		if len(c.Ops) > 4 && len(c.Ops) < 12 {
			run.Sample(map[string]any{"ops": fmt.Sprint(c.Ops)})
		}
		vlib.Fail(rt, run.Judge(c, vs))
	})
}

// c19Labels classifies a sequence by replaying the model.
func c19Labels(c c19Case) []string {
	c = c19Case{Ops: c19RawOps(c.Ops)}
	var out []string
	model := omModel{}
	var shadow omModel
	hasShadow := false
	seen := map[string]bool{}
	classified := map[string]bool{}
	add := func(l string) {
		if !seen[l] {
			seen[l] = true
			out = append(out, l)
		}
	}
	for _, op := range c.Ops {
		switch {
		case op.Kind == "swap":
			if hasShadow {
				model, shadow = shadow, model
				add("swap_to_source")
			}
			continue
		case strings.HasPrefix(op.Kind, "sort_tie") && len(model) > 12:
			firsts := map[byte]int{}
			for _, p := range model {
				firsts[firstByte(p.k)]++
			}
			for _, n := range firsts {
				if n > 1 {
					add("tie_sort_over_12_keys")
				}
			}
		case strings.HasPrefix(op.Kind, "decode"):
			ks := map[string]bool{}
			for _, p := range op.Pairs {
				if ks[c19JSONKey(p.K)] {
					add("decode_repeated_member")
				}
				ks[c19JSONKey(p.K)] = true
				if p.Lit != "" {
					add("decode_member_spelled_with_escapes")
				}
			}
		case strings.HasPrefix(op.Kind, "json_"):
			ks := map[string]bool{}
			for _, p := range model {
				if ks[c19JSONKey(p.k)] {
					add("json_roundtrip_keys_fall_together")
				}
				ks[c19JSONKey(p.k)] = true
			}
		case op.Kind == "remove" && model.find(op.K) < 0:
			add("remove_absent")
		}
		if derivesNewMap(op.Kind) {
			shadow, hasShadow = model, true
			if len(model) > 0 {
				add("derive_from_nonempty")
			}
		} else if hasShadow && len(shadow) > 0 {
			add("mutate_after_derive")
		}
		model = model.apply(op)
		// every state is JSON-encoded by the observation
		for _, p := range model {
			if classified[p.k] {
				continue
			}
			classified[p.k] = true
			for _, l := range c19KeyClasses(p.k) {
				add("encoded_" + l)
			}
		}
	}
	return out
}
