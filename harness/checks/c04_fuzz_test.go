package checks

// Native (coverage-guided, byte-level) fuzz targets of C04. They are run by
// the thorough tier only (`go test -fuzz`), one target at a time; the oracle
// is inside the target: a recovered panic whose signature is not listed is a
// failure (and writes a replay file in the C04 case format), listed ones are
// swallowed so that the campaign goes on behind them.

import (
	"crypto/sha256"
	"encoding/hex"
	"encoding/json"
	"os"
	"path/filepath"
	"regexp"
	"testing"

	"github.com/grafana/cog/verifharness/e2"
	"github.com/grafana/cog/verifharness/smodel"
	"github.com/grafana/cog/verifharness/vlib"
)

var c04FuzzFindings []*regexp.Regexp

func c04FuzzListed(sig string) bool {
	if c04FuzzFindings == nil {
		path := os.Getenv("VERIF_FINDINGS")
		if path == "" {
			path = "/verif/known_findings.json"
		}
		fs, _ := vlib.LoadFindings(path, "C04")
		for _, f := range fs {
			if re, err := regexp.Compile("^(?:" + f.Match + ")$"); err == nil {
				c04FuzzFindings = append(c04FuzzFindings, re)
			}
		}
		c04FuzzFindings = append(c04FuzzFindings, regexp.MustCompile(`^\b$`))
	}
	for _, re := range c04FuzzFindings {
		if re.MatchString(sig) {
			return true
		}
	}
	return false
}

var c04FuzzSeedModel = `{"package":"pk","entry":"A","defs":[{"name":"A","type":{"kind":"struct","fields":[{"name":"title","required":true,"type":{"kind":"string","min_len":1}},{"name":"tags","type":{"kind":"array","elem":{"kind":"string"}}},{"name":"shape","type":{"kind":"union_structs","refs":["Line","Text"],"discriminator":"kind"}},{"name":"mode","type":{"kind":"ref","ref":"Mode"}},{"name":"val","type":{"kind":"union_scalars","branches":[{"kind":"string"},{"kind":"int"}]}},{"name":"byName","type":{"kind":"map","elem":{"kind":"ref","ref":"Line"}}}]}},{"name":"Line","type":{"kind":"struct","fields":[{"name":"kind","required":true,"type":{"kind":"string","const":"line"}},{"name":"w","type":{"kind":"float","max":5,"default":1.5}}]}},{"name":"Text","type":{"kind":"struct","fields":[{"name":"kind","required":true,"type":{"kind":"string","const":"text"}}]}},{"name":"Mode","type":{"kind":"enum","enum_kind":"string","members":["a","b"],"default":"b"}}]}`

func c04FuzzTarget(f *testing.F, format smodel.Format) {
	var m smodel.Model
	_ = json.Unmarshal([]byte(c04FuzzSeedModel), &m)
	f.Add([]byte(smodel.Render(format, &m)))
	if format != smodel.CUE {
		for _, frag := range hostileFragments {
			key := "definitions"
			doc := `{"$ref":"#/definitions/A","definitions":{"A":` + frag + `}}`
			if format == smodel.OpenAPI {
				key = "components"
				doc = `{"openapi":"3.0.0","info":{"title":"pk","version":"1"},"paths":{},"components":{"schemas":{"A":` + frag + `}}}`
			}
			_ = key
			f.Add([]byte(doc))
		}
	} else {
		for _, frag := range hostileCUE {
			f.Add([]byte("package pk\n\n" + frag + "\n"))
		}
	}
	f.Fuzz(func(t *testing.T, data []byte) {
		if len(data) > 1<<14 {
			t.Skip()
		}
		c := c04Case{
			Inputs:    []e2.InputSpec{{Format: format, Package: "pk", Source: string(data)}},
			Config:    e2.OutputSpec{Types: true, Builders: true, Go: &e2.GoFlags{JSON: true, Validate: true}, Python: &e2.PyFlags{}, Java: &e2.JvFlags{}, Typescript: &e2.TsFlags{}, PHP: &e2.PhFlags{}},
			Languages: []string{"go", "jsonschema"},
		}
		ans := runC04InProcess(t.TempDir(), c)
		if ans.Outcome != "panic" {
			return
		}
		sig := "panic:" + ans.Sig
		if c04FuzzListed(sig) {
			return
		}
		if dir := os.Getenv("VERIF_FUZZ_OUT"); dir != "" {
			h := sha256.Sum256(data)
			replay := map[string]any{"property": "C04", "case": c, "violations": []vlib.Violation{vlib.V(sig, "%s (%s); found by native fuzzing", ans.Sig, ans.Msg)}}
			raw, _ := json.MarshalIndent(replay, "", " ")
			_ = os.MkdirAll(dir, 0o755)
			_ = os.WriteFile(filepath.Join(dir, "fuzz_"+hex.EncodeToString(h[:8])+".json"), raw, 0o644)
		}
		t.Fatalf("unlisted panic [%s]: %s", sig, ans.Msg)
	})
}

func FuzzC04JSONSchema(f *testing.F) { c04FuzzTarget(f, smodel.JSONSchema) }
func FuzzC04OpenAPI(f *testing.F)    { c04FuzzTarget(f, smodel.OpenAPI) }
func FuzzC04CUE(f *testing.F)        { c04FuzzTarget(f, smodel.CUE) }
