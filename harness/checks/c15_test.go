package checks

// C15 — schema transformations have their documented effect and touch nothing
// else. Model-based: each transformation is applied by cog and by the
// reference model of c15_model.go; the results are compared object by object,
// field by field, in order.

import (
	"fmt"
	"reflect"
	"strings"
	"testing"

	"github.com/grafana/cog/internal/ast"
	"github.com/grafana/cog/internal/ast/compiler"
	cogyaml "github.com/grafana/cog/internal/yaml"
	"github.com/grafana/cog/verifharness/irgen"
	"github.com/grafana/cog/verifharness/passgen"
	"github.com/grafana/cog/verifharness/vlib"
	"github.com/grafana/cog/verifharness/walk"
	"pgregory.net/rapid"
)

type c15Case struct {
	IR     irgen.IRSpec       `json:"ir"`
	Passes []passgen.PassSpec `json:"passes"`
	// ViaYAML[i]: pass i is built by decoding YAML through yaml.CompilerLoader
	ViaYAML []bool `json:"via_yaml"`
}

func isTrailField(_ reflect.Type, f reflect.StructField) bool { return f.Name == "PassesTrail" }

func stripForCompare(obj ast.Object, ignoreEnumNames bool) string {
	cp := obj.DeepCopy()
	walk.ZeroFields(&cp, func(st reflect.Type, f reflect.StructField) bool {
		if f.Name == "PassesTrail" {
			return true
		}
		return ignoreEnumNames && st.Name() == "EnumValue" && f.Name == "Name"
	})
	return walk.Canon(cp)
}

func buildPass(ps passgen.PassSpec, viaYAML bool) (compiler.Pass, error) {
	if viaYAML {
		if y, ok := ps.YAML(); ok {
			passes, err := cogyaml.NewCompilerLoader().Load(strings.NewReader("passes:\n  " + y + "\n"))
			if err != nil {
				return nil, fmt.Errorf("yaml loader rejected %q: %w", y, err)
			}
			if len(passes) != 1 {
				return nil, fmt.Errorf("yaml loader produced %d passes for %q", len(passes), y)
			}
			return passes[0], nil
		}
	}
	return ps.Build(), nil
}

func c15Check(c c15Case) []vlib.Violation {
	cur := c.IR.Build()
	modelIR := c.IR
	entryPointDiverged := map[string]bool{}
	ignoreEnumNames := false // sticky: once PrefixObjectNames ran, member names are off the model
	for i, ps := range c.Passes {
		viaYAML := i < len(c.ViaYAML) && c.ViaYAML[i]
		route := "direct"
		if viaYAML {
			if _, ok := ps.YAML(); ok {
				route = "yaml"
			}
		}
		pass, err := buildPass(ps, viaYAML)
		if err != nil {
			return []vlib.Violation{vlib.V("loader:"+ps.Kind, "%v", err)}
		}
		model := c15Model(modelIR, ps)
		if model.IgnoreEnumMemberNames {
			ignoreEnumNames = true
		}
		model.IgnoreEnumMemberNames = ignoreEnumNames
		var next ast.Schemas
		var perr error
		sig, msg, panicked := vlib.Guard(func() { next, perr = compiler.Passes{pass}.Process(cur) })
		if panicked {
			return []vlib.Violation{vlib.V("skip:panic:"+sig, "%s panicked: %s", ps, msg)}
		}
		if model.Unspecified != "" {
			return []vlib.Violation{vlib.V("skip:unspecified", "%s", model.Unspecified)}
		}
		if model.ExpectError {
			if perr == nil {
				return []vlib.Violation{vlib.V("no-error:"+ps.Kind, "%s should have been refused (documented error) but succeeded", ps)}
			}
			return nil
		}
		if perr != nil {
			return []vlib.Violation{vlib.V("unexpected-error:"+ps.Kind+":"+ps.TargetClass, "%s returned an error the documentation does not announce: %v", ps, perr)}
		}
		expected := model.IR.Build()
		tag := fmt.Sprintf("%s:%s:%s", ps.Kind, ps.TargetClass, route)
		matched := "matched"
		if !model.Matched {
			matched = "no-target"
		}
		var vs []vlib.Violation
		bad := func(what string, format string, args ...any) {
			vs = append(vs, vlib.V(fmt.Sprintf("%s:%s:%s", what, tag, matched), "step %d %s: "+format, append([]any{i, ps}, args...)...))
		}
		if len(next) != len(expected) {
			bad("schemas", "%d schemas, model %d", len(next), len(expected))
			return vs
		}
		for si := range expected {
			exp, act := expected[si], next[si]
			if act.Package != exp.Package {
				bad("schema-order", "schema %d is %s, model %s", si, act.Package, exp.Package)
				return vs
			}
			if walk.Canon(act.Metadata) != walk.Canon(exp.Metadata) {
				bad("metadata", "package %s: metadata %s, model %s", exp.Package, walk.Canon(act.Metadata), walk.Canon(exp.Metadata))
			}
			if act.EntryPoint != exp.EntryPoint {
				bad("entry-point", "package %s: entry point %q, model %q", exp.Package, act.EntryPoint, exp.EntryPoint)
			}
			// replace_reference: whether the entry point counts as a "usage"
			// of the reference is not documented
			if exp.EntryPoint != "" && ps.Kind != "replace_reference" && !entryPointDiverged[exp.Package] {
				a, e := act.EntryPointType.DeepCopy(), exp.EntryPointType.DeepCopy()
				walk.ZeroFields(&a, isTrailField)
				walk.ZeroFields(&e, isTrailField)
				if walk.Canon(a) != walk.Canon(e) {
					bad("entry-point-type", "package %s: entry point type %s, model %s", exp.Package, walk.Canon(a), walk.Canon(e))
				}
			}
			var actNames, expNames []string
			act.Objects.Iterate(func(k string, o ast.Object) { actNames = append(actNames, o.Name) })
			exp.Objects.Iterate(func(k string, o ast.Object) { expNames = append(expNames, o.Name) })
			if strings.Join(actNames, ",") != strings.Join(expNames, ",") {
				bad("objects", "package %s holds objects %v, model %v", exp.Package, actNames, expNames)
				continue
			}
			var prevSchema *ast.Schema
			for _, ps0 := range cur {
				if ps0.Package == exp.Package {
					prevSchema = ps0
				}
			}
			exp.Objects.Iterate(func(name string, eo ast.Object) {
				ao := act.Objects.Get(name)
				if a, e := stripForCompare(ao, model.IgnoreEnumMemberNames), stripForCompare(eo, model.IgnoreEnumMemberNames); a != e {
					what := "object"
					if !model.Touched[exp.Package+"."+name] {
						what = "untouched-object"
					}
					p, d, _ := walk.Diff(mustStrip(ao, model.IgnoreEnumMemberNames), mustStrip(eo, model.IgnoreEnumMemberNames))
					bad(what+":"+lastSegments(p), "%s.%s differs from the documented result at %s: %s", exp.Package, name, p, d)
					return
				}
				if !model.Touched[exp.Package+"."+name] && prevSchema != nil && prevSchema.Objects.Has(name) {
					if a, b := walk.Canon(ao), walk.Canon(prevSchema.Objects.Get(name)); a != b {
						p, d, _ := walk.Diff(ao, prevSchema.Objects.Get(name))
						bad("untouched-object-modified:"+lastSegments(p), "%s.%s is not a target of the transformation but changed at %s: %s", exp.Package, name, p, d)
					}
				}
			})
		}
		if len(vs) > 0 {
			return vs
		}
		if ps.Kind == "replace_reference" {
			for _, s := range next {
				if s.EntryPoint != "" && s.EntryPointType.Kind == ast.KindRef && (s.EntryPointType.Ref.ReferredType != s.EntryPoint || s.EntryPointType.Ref.ReferredPkg != s.Package) {
					entryPointDiverged[s.Package] = true
				}
			}
		}
		cur = next
		modelIR = model.IR
	}
	// Applying the whole sequence in one go (one Passes.Process call, as cog
	// does for a configuration file) must give what the steps gave one by one:
	// objects created by one transformation must not share structure with
	// their source, or a later transformation shows through.
	if len(c.Passes) > 1 {
		var all compiler.Passes
		for i, ps := range c.Passes {
			pass, err := buildPass(ps, i < len(c.ViaYAML) && c.ViaYAML[i])
			if err != nil {
				return nil
			}
			all = append(all, pass)
		}
		var chained ast.Schemas
		var perr error
		sig, msg, panicked := vlib.Guard(func() { chained, perr = all.Process(c.IR.Build()) })
		if panicked {
			return []vlib.Violation{vlib.V("skip:panic:"+sig, "chain panicked: %s", msg)}
		}
		if perr != nil {
			return []vlib.Violation{vlib.V("chain-error", "the sequence %v succeeds step by step but fails as one chain: %v", c.Passes, perr)}
		}
		if p, d, differs := walk.Diff(chained, cur); differs {
			kinds := make([]string, 0, len(c.Passes))
			for _, ps := range c.Passes {
				kinds = append(kinds, ps.Kind)
			}
			return []vlib.Violation{vlib.V("chain-differs-from-steps:"+lastSegments(p), "the sequence %v gives a different result when applied as one chain than step by step, at %s: %s", c.Passes, p, d)}
		}
	}
	return nil
}

func mustStrip(obj ast.Object, ignoreEnumNames bool) ast.Object {
	cp := obj.DeepCopy()
	walk.ZeroFields(&cp, func(st reflect.Type, f reflect.StructField) bool {
		if f.Name == "PassesTrail" {
			return true
		}
		return ignoreEnumNames && st.Name() == "EnumValue" && f.Name == "Name"
	})
	return cp
}

// lastSegments keeps the last two field names of a walker path, without
// indices, for signatures.
func lastSegments(p string) string {
	p = strings.NewReplacer("[]", "", "{}", "").Replace(p)
	parts := strings.Split(p, ".")
	if len(parts) > 2 {
		parts = parts[len(parts)-2:]
	}
	return strings.Join(parts, ".")
}

func c15Config() irgen.Config {
	cfg := irgen.DefaultConfig()
	cfg.MinPkgs, cfg.MaxPkgs = 2, 3
	cfg.MinObjs = 2
	cfg.SmallNamePool = true // the same object names in several packages, on purpose
	return cfg
}

func TestC15(t *testing.T) {
	run := vlib.Begin(t, "C15")
	defer run.Finish(t)
	run.Describe(
		"IRs of 2-3 packages (the same object names in several packages on purpose) x one parameterisation of each of the 19 transformations, targets exact / case-flipped / other-package / absent 4:2:1:1, built directly or by decoding YAML through yaml.CompilerLoader; plus sequences of 2-5 transformations. Oracle: a reference model of each transformation (documented effect + documented matching rule: package exact, names case-insensitive) applied to a plain copy of the IR; cog's output must equal the model's object by object, field by field, in order (pass trails ignored), and objects the model does not touch must come out exactly as they went in (trails, comments, defaults, position). Corners the documentation is silent on (add_object / duplicate_object over an existing name, duplicate_object with a differently-cased source, enum member names under PrefixObjectNames) are accepted either way. Non-trivial: the transformation matched a target and the IR holds >= 3 other objects; distinct by case hash.",
		"undocumented corners are never reported (labelled unspecified)",
		"a fields_set_default / fields_set_* transformation never lists two spellings of the same field (their relative order is C03's matter)",
		"panics are C04's matter: skipped and counted",
	)
	if vlib.RunReplay(t, run, c15Check) {
		return
	}
	cfg := c15Config()
	rapid.Check(t, func(rt *rapid.T) {
		c := c15Case{IR: irgen.Draw(rt, cfg)}
		n := 1
		if rapid.IntRange(0, 3).Draw(rt, "sequence") == 0 {
			n = rapid.IntRange(2, 5).Draw(rt, "npasses")
		}
		labels := []string{}
		// each transformation is drawn relative to the IR as the model says it
		// is at that point, so later steps can target renamed / duplicated /
		// added objects
		evolving := c.IR
		for i := 0; i < n; i++ {
			ps := passgen.DrawAny(rt, evolving, "")
			if r := c15Model(evolving, ps); r.Unspecified == "" && !r.ExpectError && len(r.IR) > 0 {
				ok := true
				for _, p := range r.IR {
					if len(p.Objects) == 0 {
						ok = false
					}
				}
				if ok {
					evolving = r.IR
				}
			}
			via := rapid.Bool().Draw(rt, "viayaml")
			if ps.Kind == "fields_set_default" {
				for _, d := range ps.Defaults {
					if d.Value.I != nil || d.Value.F != nil {
						via = false // yaml decodes integers as int, the direct route uses int64
					}
				}
			}
			c.Passes = append(c.Passes, ps)
			c.ViaYAML = append(c.ViaYAML, via)
			labels = append(labels, "pass:"+ps.Kind)
			if ps.TargetClass != "" {
				labels = append(labels, "target:"+ps.TargetClass)
			}
			if _, ok := ps.YAML(); ok && via {
				labels = append(labels, "via_yaml")
			}
		}
		if n > 1 {
			labels = append(labels, "sequence")
		}
		// non-triviality by the model
		matched := false
		m := c.IR
		for _, ps := range c.Passes {
			res := c15Model(m, ps)
			if res.Matched {
				matched = true
				labels = append(labels, "matched:"+ps.Kind)
			}
			if res.Unspecified != "" {
				labels = append(labels, "unspecified")
				break
			}
			if res.ExpectError {
				labels = append(labels, "documented_error")
				break
			}
			m = res.IR
		}
		key := uint64(0)
		if matched && len(c.IR.ObjectNames()) >= 4 {
			key = vlib.Hash(c)
		}
		run.Pending(c)
		vs := c15Check(c)
		kept := vs[:0]
		for _, v := range vs {
			if v.Sig == "skip:unspecified" {
				continue
			}
			kept = append(kept, v)
		}
		vs = skipPanics(run, kept)
		run.Eval(key, dedupe(labels)...)
		if key != 0 && len(c.IR.ObjectNames()) <= 5 {
			run.Sample(c)
		}
		vlib.Fail(rt, run.Judge(c, vs))
	})
}
