package e2

import (
	"fmt"
	"os"
	"os/exec"
	"path/filepath"
	"regexp"
	"sort"
	"strings"
)

// JavaBatch holds the generated Java trees of several cases (each generated
// under its own package path, named after the case id) and compiles them with
// one javac invocation against the Jackson jars vendored under /verif/lib.
type JavaBatch struct {
	Dir string
	// CompileErrors: case id -> diagnostics
	CompileErrors map[string][]string
	sources       []string
}

func NewJavaBatch(dir string) (*JavaBatch, error) {
	if err := os.MkdirAll(dir, 0o755); err != nil {
		return nil, err
	}
	return &JavaBatch{Dir: dir, CompileErrors: map[string][]string{}}, nil
}

func (b *JavaBatch) Close() { _ = os.RemoveAll(b.Dir) }

// Add writes the .java files of one case (paths start with "<caseID>/").
func (b *JavaBatch) Add(caseID string, files Files) error {
	for _, p := range files.Paths() {
		if !strings.HasSuffix(p, ".java") {
			continue
		}
		full := filepath.Join(b.Dir, p)
		if err := os.MkdirAll(filepath.Dir(full), 0o755); err != nil {
			return err
		}
		if err := os.WriteFile(full, files[p], 0o644); err != nil {
			return err
		}
		b.sources = append(b.sources, p)
	}
	return nil
}

func jacksonClasspath() (string, error) {
	root := os.Getenv("VERIF_ROOT")
	if root == "" {
		root = "/verif"
	}
	jars, _ := filepath.Glob(filepath.Join(root, "lib", "jackson", "*.jar"))
	if len(jars) == 0 {
		return "", fmt.Errorf("no Jackson jars under %s/lib/jackson", root)
	}
	sort.Strings(jars)
	return strings.Join(jars, ":"), nil
}

var reJavacLine = regexp.MustCompile(`^([^\s:]+\.java):(\d+): error: (.*)$`)

// Build compiles everything (annotation processing off).
func (b *JavaBatch) Build() error {
	if len(b.sources) == 0 {
		return nil
	}
	cp, err := jacksonClasspath()
	if err != nil {
		return err
	}
	sort.Strings(b.sources)
	if err := os.WriteFile(filepath.Join(b.Dir, "sources.txt"), []byte(strings.Join(b.sources, "\n")+"\n"), 0o644); err != nil {
		return err
	}
	cmd := exec.Command("javac", "-proc:none", "-nowarn", "-Xlint:none", "-Xmaxerrs", "2000", "-encoding", "UTF-8", "-cp", cp, "-d", "zzout", "@sources.txt")
	cmd.Dir = b.Dir
	out, runErr := cmd.CombinedOutput()
	sawError := false
	lastCase := ""
	for _, line := range strings.Split(string(out), "\n") {
		trimmed := strings.TrimSpace(line)
		m := reJavacLine.FindStringSubmatch(trimmed)
		if m == nil {
			// "symbol:   class Foo" details of the previous diagnostic
			if lastCase != "" && strings.HasPrefix(trimmed, "symbol:") {
				errs := b.CompileErrors[lastCase]
				errs[len(errs)-1] += " (" + strings.Join(strings.Fields(trimmed), " ") + ")"
			}
			continue
		}
		sawError = true
		caseID := strings.SplitN(m[1], "/", 2)[0]
		lastCase = caseID
		b.CompileErrors[caseID] = append(b.CompileErrors[caseID], fmt.Sprintf("%s:%s: %s", m[1], m[2], m[3]))
	}
	if runErr != nil && !sawError {
		return fmt.Errorf("javac failed without a diagnostic: %v\n%s", runErr, tailStr(string(out), 2000))
	}
	return nil
}
