// Package e2 is the generated-code engine: it runs cog's pipeline in process,
// writes the generated trees of a batch of cases into one scratch module,
// type-checks them with the Go toolchain and drives them through a reflective
// driver binary (JSON lines in, JSON lines out).
package e2

import (
	"context"
	"fmt"
	"os"
	"path/filepath"
	"sort"

	"github.com/grafana/cog/internal/ast"
	"github.com/grafana/cog/internal/codegen"
	"github.com/grafana/cog/internal/jennies/golang"
	"github.com/grafana/cog/internal/jennies/java"
	"github.com/grafana/cog/internal/jennies/jsonschema"
	"github.com/grafana/cog/internal/jennies/openapi"
	"github.com/grafana/cog/internal/jennies/php"
	"github.com/grafana/cog/internal/jennies/python"
	"github.com/grafana/cog/internal/jennies/typescript"
	"github.com/grafana/cog/verifharness/smodel"
)

// InputSpec is one schema input of a pipeline.
type InputSpec struct {
	Format  smodel.Format `json:"format"`
	Package string        `json:"package"`
	Source  string        `json:"source"`
	// AllowedObjects: optional allowed_objects filter
	AllowedObjects []string `json:"allowed_objects,omitempty"`
	// Transforms: contents of transformation files (`passes:` lists) applied
	// to this input
	Transforms []string `json:"transforms,omitempty"`
	// Meta: schema metadata (kind / variant / identifier), e.g. a composable
	// panelcfg plugin
	Meta *InputMeta `json:"meta,omitempty"`
	// FileName: file name to write the source under (OpenAPI derives the package
	// of a cross-file reference from the referred file's name)
	FileName string `json:"file_name,omitempty"`
}

type InputMeta struct {
	Kind       string `json:"kind,omitempty"`
	Variant    string `json:"variant,omitempty"`
	Identifier string `json:"identifier,omitempty"`
}

func (m *InputMeta) ast() *ast.SchemaMeta {
	if m == nil {
		return nil
	}
	return &ast.SchemaMeta{Kind: ast.SchemaKind(m.Kind), Variant: ast.SchemaVariant(m.Variant), Identifier: m.Identifier}
}

// OutputSpec selects what is generated.
type OutputSpec struct {
	Types        bool `json:"types"`
	Builders     bool `json:"builders"`
	Converters   bool `json:"converters"`
	APIReference bool `json:"api_reference"`

	Go         *GoFlags `json:"go,omitempty"`
	Python     *PyFlags `json:"python,omitempty"`
	Java       *JvFlags `json:"java,omitempty"`
	Typescript *TsFlags `json:"typescript,omitempty"`
	PHP        *PhFlags `json:"php,omitempty"`
	JSONSchema bool     `json:"jsonschema,omitempty"`
	OpenAPI    bool     `json:"openapi,omitempty"`
	// Veneers: contents of veneer YAML files (builder / option rewrite rules)
	Veneers []string `json:"veneers,omitempty"`
	// CommonPasses: contents of transformation files (`passes:` lists) applied
	// to all the schemas
	CommonPasses []string `json:"common_passes,omitempty"`
}

type GoFlags struct {
	JSON, Strict, Equal, Validate, AnyAsInterface, SkipRuntime bool
	PackageRoot                                                string
}
type PyFlags struct{ JSON, SkipRuntime bool }
type JvFlags struct {
	JSON, SkipRuntime bool
	// PackagePath: root java package (default "gen")
	PackagePath string
}
type TsFlags struct{ SkipRuntime, SkipIndex, EnumsAsUnionTypes bool }
type PhFlags struct{ JSON bool }

// WriteInputs writes the schema sources below dir and returns the pipeline inputs.
func WriteInputs(dir string, inputs []InputSpec) ([]*codegen.Input, error) {
	var out []*codegen.Input
	if err := os.MkdirAll(dir, 0o755); err != nil {
		return nil, err
	}
	for i, in := range inputs {
		var transforms []string
		for k, content := range in.Transforms {
			tp := filepath.Join(dir, fmt.Sprintf("transform%02d_%02d.yaml", i, k))
			if err := os.WriteFile(tp, []byte(content), 0o644); err != nil {
				return nil, err
			}
			transforms = append(transforms, tp)
		}
		switch in.Format {
		case smodel.JSONSchema:
			p := filepath.Join(dir, fmt.Sprintf("in%02d_%s.json", i, in.Package))
			if err := os.WriteFile(p, []byte(in.Source), 0o644); err != nil {
				return nil, err
			}
			out = append(out, &codegen.Input{JSONSchema: &codegen.JSONSchemaInput{Path: p, Package: in.Package, InputBase: codegen.InputBase{AllowedObjects: in.AllowedObjects, Metadata: in.Meta.ast(), Transforms: transforms}}})
		case smodel.OpenAPI:
			p := filepath.Join(dir, fmt.Sprintf("in%02d_%s.openapi.json", i, in.Package))
			if in.FileName != "" {
				p = filepath.Join(dir, in.FileName)
			}
			if err := os.WriteFile(p, []byte(in.Source), 0o644); err != nil {
				return nil, err
			}
			out = append(out, &codegen.Input{OpenAPI: &codegen.OpenAPIInput{Path: p, Package: in.Package, InputBase: codegen.InputBase{AllowedObjects: in.AllowedObjects, Metadata: in.Meta.ast(), Transforms: transforms}}})
		case smodel.CUE:
			d := filepath.Join(dir, fmt.Sprintf("in%02d", i), in.Package)
			if err := os.MkdirAll(d, 0o755); err != nil {
				return nil, err
			}
			if err := os.WriteFile(filepath.Join(d, "schema.cue"), []byte(in.Source), 0o644); err != nil {
				return nil, err
			}
			out = append(out, &codegen.Input{Cue: &codegen.CueInput{Entrypoint: d, Package: in.Package, InputBase: codegen.InputBase{AllowedObjects: in.AllowedObjects, Metadata: in.Meta.ast(), Transforms: transforms}}})
		default:
			return nil, fmt.Errorf("unknown format %q", in.Format)
		}
	}
	return out, nil
}

// NewPipeline builds the codegen.Pipeline value for the inputs/outputs.
func NewPipeline(workDir string, outDir string, inputs []InputSpec, o OutputSpec) (*codegen.Pipeline, error) {
	p, err := codegen.NewPipeline()
	if err != nil {
		return nil, err
	}
	ins, err := WriteInputs(workDir, inputs)
	if err != nil {
		return nil, err
	}
	p.Inputs = ins
	if len(o.Veneers) > 0 {
		vdir := filepath.Join(workDir, "veneers")
		if err := os.MkdirAll(vdir, 0o755); err != nil {
			return nil, err
		}
		for i, content := range o.Veneers {
			if err := os.WriteFile(filepath.Join(vdir, fmt.Sprintf("v%02d.yaml", i)), []byte(content), 0o644); err != nil {
				return nil, err
			}
		}
		p.Transforms.VeneersDirectories = []string{vdir}
	}
	if len(o.CommonPasses) > 0 {
		var files []string
		for i, content := range o.CommonPasses {
			fp := filepath.Join(workDir, fmt.Sprintf("common%02d.yaml", i))
			if err := os.MkdirAll(workDir, 0o755); err != nil {
				return nil, err
			}
			if err := os.WriteFile(fp, []byte(content), 0o644); err != nil {
				return nil, err
			}
			files = append(files, fp)
		}
		p.Transforms.CommonPassesFiles = files
	}
	p.Output.Directory = outDir
	p.Output.Types, p.Output.Builders, p.Output.Converters, p.Output.APIReference = o.Types, o.Builders, o.Converters, o.APIReference
	if o.Go != nil {
		p.Output.Languages = append(p.Output.Languages, &codegen.OutputLanguage{Go: &golang.Config{
			GenerateJSONMarshaller: o.Go.JSON, GenerateStrictUnmarshaller: o.Go.Strict, GenerateEqual: o.Go.Equal,
			GenerateValidate: o.Go.Validate, AnyAsInterface: o.Go.AnyAsInterface, SkipRuntime: o.Go.SkipRuntime,
			PackageRoot: o.Go.PackageRoot, SkipPostFormatting: false,
		}})
	}
	if o.Python != nil {
		p.Output.Languages = append(p.Output.Languages, &codegen.OutputLanguage{Python: &python.Config{GenerateJSONMarshaller: o.Python.JSON, SkipRuntime: o.Python.SkipRuntime}})
	}
	if o.Java != nil {
		pkgPath := o.Java.PackagePath
		if pkgPath == "" {
			pkgPath = "gen"
		}
		p.Output.Languages = append(p.Output.Languages, &codegen.OutputLanguage{Java: &java.Config{GenerateJSONMarshaller: o.Java.JSON, SkipRuntime: o.Java.SkipRuntime, PackagePath: pkgPath}})
	}
	if o.Typescript != nil {
		p.Output.Languages = append(p.Output.Languages, &codegen.OutputLanguage{Typescript: &typescript.Config{SkipRuntime: o.Typescript.SkipRuntime, SkipIndex: o.Typescript.SkipIndex, EnumsAsUnionTypes: o.Typescript.EnumsAsUnionTypes}})
	}
	if o.PHP != nil {
		p.Output.Languages = append(p.Output.Languages, &codegen.OutputLanguage{PHP: &php.Config{GenerateJSONMarshaller: o.PHP.JSON, NamespaceRoot: "Gen"}})
	}
	if o.JSONSchema {
		p.Output.Languages = append(p.Output.Languages, &codegen.OutputLanguage{JSONSchema: &jsonschema.Config{}})
	}
	if o.OpenAPI {
		p.Output.Languages = append(p.Output.Languages, &codegen.OutputLanguage{OpenAPI: &openapi.Config{}})
	}
	return p, nil
}

// Files is a generated tree: path -> content.
type Files map[string][]byte

func (f Files) Paths() []string {
	out := make([]string, 0, len(f))
	for p := range f {
		out = append(out, p)
	}
	sort.Strings(out)
	return out
}

// Run executes the pipeline and returns the generated files.
func Run(p *codegen.Pipeline) (Files, error) {
	fs, err := p.Run(context.Background())
	if err != nil {
		return nil, err
	}
	out := Files{}
	for _, f := range fs.AsFiles() {
		out[f.RelativePath] = f.Data
	}
	return out, nil
}

// LoadSchemas parses the inputs (as `cog inspect` does).
func LoadSchemas(p *codegen.Pipeline) (ast.Schemas, error) {
	return p.LoadSchemas(context.Background())
}
