package e2

import (
	"bufio"
	"bytes"
	"encoding/json"
	"fmt"
	"go/ast"
	"go/parser"
	"os"
	"os/exec"
	"path/filepath"
	"sort"
	"strings"
)

// DumpRuntime is the `cog.Dump` helper the generated Go converters call and
// no jenny emits (listed finding of C02); the text is the one of the
// repository's own testdata/generated/cog/runtime.go.
const DumpRuntime = `package cog

import (
	"fmt"
	"reflect"
	"strings"
)

func Dump(root any) string {
	return dumpValue(reflect.ValueOf(root))
}

func dumpValue(value reflect.Value) string {
	if reflectValueIsNil(value) {
		return "nil"
	}

	if !value.IsValid() {
		return "<invalid>"
	}

	switch value.Kind() {
	case reflect.Bool:
		return fmt.Sprintf("%#v", value.Bool())
	case reflect.Int, reflect.Int8, reflect.Int16, reflect.Int32, reflect.Int64:
		return fmt.Sprintf("%d", value.Int())
	case reflect.Uint, reflect.Uint8, reflect.Uint16, reflect.Uint32, reflect.Uint64:
		return fmt.Sprintf("%d", value.Uint())
	case reflect.Float32, reflect.Float64:
		return fmt.Sprintf("%#v", value.Float())
	case reflect.String:
		return fmt.Sprintf("%#v", value.String())
	case reflect.Array, reflect.Slice:
		return dumpArray(value)
	case reflect.Map:
		return dumpMap(value)
	case reflect.Struct:
		return dumpStruct(value)
	case reflect.Interface:
		if !value.CanInterface() {
			return "<interface: can't interface>"
		}

		return Dump(value.Interface())
	case reflect.Pointer:
		if value.IsNil() {
			return "nil"
		}

		pointed := value.Elem()

		return fmt.Sprintf("cog.ToPtr[%s](%s)", pointed.Type().String(), dumpValue(pointed))
	default:
		return fmt.Sprintf("<unknown: type=%s, kind=%s>", value.Type(), value.Kind().String())
	}
}

func dumpArray(value reflect.Value) string {
	if value.IsNil() {
		return "nil"
	}

	parts := make([]string, 0, value.Len())
	for i := 0; i < value.Len(); i++ {
		parts = append(parts, dumpValue(value.Index(i)))
	}

	return fmt.Sprintf("%s{%s}", value.Type().String(), strings.Join(parts, ", "))
}

func dumpMap(value reflect.Value) string {
	if value.IsNil() {
		return "nil"
	}

	parts := make([]string, 0, value.Len())
	iter := value.MapRange()
	for iter.Next() {
		if reflectValueIsNil(iter.Value()) {
			continue
		}

		line := fmt.Sprintf("%s: %s", dumpValue(iter.Key()), dumpValue(iter.Value()))
		parts = append(parts, line)
	}

	return fmt.Sprintf("%s{%s}", value.Type().String(), strings.Join(parts, ", "))
}

func dumpStruct(value reflect.Value) string {
	parts := make([]string, 0, value.NumField())
	structType := value.Type()

	for i := 0; i < value.NumField(); i++ {
		field := structType.Field(i)
		if !field.IsExported() {
			continue
		}

		fieldValue := value.Field(i)
		if reflectValueIsNil(fieldValue) {
			continue
		}

		line := fmt.Sprintf("%s: %s", field.Name, dumpValue(fieldValue))
		parts = append(parts, line)
	}

	return fmt.Sprintf("%s{%s}", value.Type().String(), strings.Join(parts, ", "))
}

func reflectValueIsNil(value reflect.Value) bool {
	valueKind := value.Kind()
	return (valueKind == reflect.Pointer || valueKind == reflect.Interface || valueKind == reflect.Array || valueKind == reflect.Slice || valueKind == reflect.Map) && value.IsNil()
}
`

// Stage2Result is what evaluating one converted expression gave.
type Stage2Result struct {
	// NotAnExpression: the text does not parse as a Go expression
	NotAnExpression string `json:"not_an_expression,omitempty"`
	// CompileError: the package holding the expressions of the case does not compile
	CompileError string `json:"compile_error,omitempty"`
	// Calls: method names of the outermost call chain, in order
	Calls    []string `json:"calls,omitempty"`
	Encoded  string   `json:"encoded,omitempty"`
	BuildErr string   `json:"build_err,omitempty"`
	Panic    string   `json:"panic,omitempty"`
}

// chainCalls lists the method names of the outermost call chain of an
// expression `pkg.NewXBuilder().A(...).B(...)`.
func chainCalls(e ast.Expr) []string {
	var out []string
	for {
		call, ok := e.(*ast.CallExpr)
		if !ok {
			break
		}
		sel, ok := call.Fun.(*ast.SelectorExpr)
		if !ok {
			break
		}
		out = append([]string{sel.Sel.Name}, out...)
		e = sel.X
	}
	return out
}

// Stage2 evaluates expressions over the generated builder API: programs maps a
// case id to expression texts; each is wrapped in `(<expr>).Build()`, all the
// expressions of a case are compiled in one package inside the batch's module
// and one binary runs everything.
func (b *Batch) Stage2(programs map[string][]string) (map[string][]Stage2Result, error) {
	results := map[string][]Stage2Result{}
	var caseIDs []string
	for id := range programs {
		caseIDs = append(caseIDs, id)
	}
	sort.Strings(caseIDs)
	pkgNameOf := func(importPath string) string { return filepath.Base(importPath) }
	var usable []string
	for _, id := range caseIDs {
		results[id] = make([]Stage2Result, len(programs[id]))
		// packages of the case by package name
		byName := map[string]string{}
		for _, p := range b.PkgOf[id] {
			byName[pkgNameOf(p)] = p
		}
		for _, p := range b.Builders[id] {
			byName[pkgNameOf(p)] = p
		}
		byName["cog"] = modName + "/" + id + "/cog"
		byName["time"] = "time" // %#v of a time.Time is a time.Date(...) call
		used := map[string]bool{}
		var body strings.Builder
		any := false
		for k, text := range programs[id] {
			expr, err := parser.ParseExpr(text)
			if err != nil {
				results[id][k].NotAnExpression = err.Error()
				continue
			}
			results[id][k].Calls = chainCalls(expr)
			ast.Inspect(expr, func(n ast.Node) bool {
				if sel, ok := n.(*ast.SelectorExpr); ok {
					if x, ok := sel.X.(*ast.Ident); ok {
						if _, isPkg := byName[x.Name]; isPkg {
							used[x.Name] = true
						}
					}
				}
				return true
			})
			fmt.Fprintf(&body, "\tout[%d] = run(func() (any, error) { v, err := (%s).Build(); return v, err })\n", k, strings.ReplaceAll(text, "\n", "\n\t\t"))
			any = true
		}
		if !any {
			continue
		}
		var src strings.Builder
		src.WriteString("package zzstage2\n\nimport (\n\t\"encoding/json\"\n\t\"fmt\"\n")
		var names []string
		for n := range used {
			names = append(names, n)
		}
		sort.Strings(names)
		for _, n := range names {
			fmt.Fprintf(&src, "\t%s %q\n", n, byName[n])
		}
		src.WriteString(")\n\n")
		src.WriteString("type Result struct {\n\tEncoded  string `json:\"encoded,omitempty\"`\n\tBuildErr string `json:\"build_err,omitempty\"`\n\tPanic    string `json:\"panic,omitempty\"`\n}\n\n")
		src.WriteString("func run(f func() (any, error)) (res *Result) {\n\tres = &Result{}\n\tdefer func() {\n\t\tif r := recover(); r != nil {\n\t\t\tres.Panic = fmt.Sprint(r)\n\t\t}\n\t}()\n\tv, err := f()\n\tif err != nil {\n\t\tres.BuildErr = err.Error()\n\t\tif res.BuildErr == \"\" {\n\t\t\tres.BuildErr = \"(empty)\"\n\t\t}\n\t\treturn res\n\t}\n\traw, _ := json.Marshal(v)\n\tres.Encoded = string(raw)\n\treturn res\n}\n\n")
		fmt.Fprintf(&src, "func Run() []*Result {\n\tout := make([]*Result, %d)\n%s\treturn out\n}\n", len(programs[id]), body.String())
		dir := filepath.Join(b.Dir, id, "zzstage2")
		if err := os.MkdirAll(dir, 0o755); err != nil {
			return nil, err
		}
		if err := os.WriteFile(filepath.Join(dir, "stage2.go"), []byte(src.String()), 0o644); err != nil {
			return nil, err
		}
		usable = append(usable, id)
	}
	if len(usable) == 0 {
		return results, nil
	}
	// compile the stage-2 packages; a package that does not compile is a result
	args := []string{"build"}
	for _, id := range usable {
		args = append(args, "./"+id+"/zzstage2")
	}
	cmd := exec.Command("go", args...)
	cmd.Dir = b.Dir
	cmd.Env = goEnv()
	out, err := cmd.CombinedOutput()
	broken := map[string]string{}
	if err != nil {
		for _, line := range strings.Split(string(out), "\n") {
			m := reErrLine.FindStringSubmatch(strings.TrimSpace(line))
			if m == nil {
				continue
			}
			id := strings.SplitN(filepath.ToSlash(m[1]), "/", 2)[0]
			if broken[id] == "" {
				broken[id] = m[4]
			}
		}
		if len(broken) == 0 {
			return nil, fmt.Errorf("stage-2 build failed without attributable diagnostics: %v\n%s", err, tailStr(string(out), 2000))
		}
	}
	var runnable []string
	for _, id := range usable {
		if msg, bad := broken[id]; bad {
			for k := range results[id] {
				if results[id][k].NotAnExpression == "" {
					results[id][k].CompileError = msg
				}
			}
			continue
		}
		runnable = append(runnable, id)
	}
	if len(runnable) == 0 {
		return results, nil
	}
	var main strings.Builder
	main.WriteString("package main\n\nimport (\n\t\"encoding/json\"\n\t\"os\"\n")
	for i, id := range runnable {
		fmt.Fprintf(&main, "\ts%d %q\n", i, modName+"/"+id+"/zzstage2")
	}
	main.WriteString(")\n\nfunc main() {\n\tenc := json.NewEncoder(os.Stdout)\n")
	for i, id := range runnable {
		fmt.Fprintf(&main, "\t_ = enc.Encode(map[string]any{\"case\": %q, \"results\": s%d.Run()})\n", id, i)
	}
	main.WriteString("}\n")
	mdir := filepath.Join(b.Dir, "zzstage2main")
	if err := os.MkdirAll(mdir, 0o755); err != nil {
		return nil, err
	}
	if err := os.WriteFile(filepath.Join(mdir, "main.go"), []byte(main.String()), 0o644); err != nil {
		return nil, err
	}
	bin := filepath.Join(b.Dir, "stage2.bin")
	cmd = exec.Command("go", "build", "-o", bin, "./zzstage2main")
	cmd.Dir = b.Dir
	cmd.Env = goEnv()
	if out, err := cmd.CombinedOutput(); err != nil {
		return nil, fmt.Errorf("stage-2 main does not build: %v\n%s", err, tailStr(string(out), 2000))
	}
	run := exec.Command(bin)
	var stdout, stderr bytes.Buffer
	run.Stdout, run.Stderr = &stdout, &stderr
	if err := run.Run(); err != nil {
		return nil, fmt.Errorf("stage-2 binary failed: %v\n%s", err, tailStr(stderr.String(), 2000))
	}
	sc := bufio.NewScanner(&stdout)
	sc.Buffer(make([]byte, 1<<20), 256<<20)
	for sc.Scan() {
		var line struct {
			Case    string `json:"case"`
			Results []*struct {
				Encoded  string `json:"encoded"`
				BuildErr string `json:"build_err"`
				Panic    string `json:"panic"`
			} `json:"results"`
		}
		if err := json.Unmarshal(sc.Bytes(), &line); err != nil {
			return nil, fmt.Errorf("bad stage-2 output: %v", err)
		}
		for k, r := range line.Results {
			if r == nil || k >= len(results[line.Case]) {
				continue
			}
			results[line.Case][k].Encoded, results[line.Case][k].BuildErr, results[line.Case][k].Panic = r.Encoded, r.BuildErr, r.Panic
		}
	}
	return results, nil
}
