package e2

import (
	"bufio"
	"bytes"
	"encoding/json"
	"fmt"
	"os"
	"os/exec"
	"path/filepath"
	"strings"
)

// PyBatch holds the generated Python trees of several cases (each a package
// named after the case id) and drives them through one CPython process.
type PyBatch struct {
	Dir string
}

func NewPyBatch(dir string) (*PyBatch, error) {
	if err := os.MkdirAll(dir, 0o755); err != nil {
		return nil, err
	}
	if err := os.WriteFile(filepath.Join(dir, "zzdriver.py"), []byte(pyDriver), 0o644); err != nil {
		return nil, err
	}
	return &PyBatch{Dir: dir}, nil
}

func (b *PyBatch) Close() { _ = os.RemoveAll(b.Dir) }

// Add writes the .py files of one case (paths start with "<caseID>/").
func (b *PyBatch) Add(caseID string, files Files) error {
	for _, p := range files.Paths() {
		if !strings.HasSuffix(p, ".py") {
			continue
		}
		full := filepath.Join(b.Dir, p)
		if err := os.MkdirAll(filepath.Dir(full), 0o755); err != nil {
			return err
		}
		if err := os.WriteFile(full, files[p], 0o644); err != nil {
			return err
		}
	}
	return nil
}

// PyRequest is one driver operation.
type PyRequest struct {
	ID int `json:"id"`
	// Op: import | roundtrip | default
	Op string `json:"op"`
	// Module: dotted module path, e.g. "c00.models.sample"
	Module string `json:"module"`
	// Encoder: dotted module path of the runtime encoder, e.g. "c00.cog.encoder"
	Encoder string `json:"encoder,omitempty"`
	// Class: definition name (matched ignoring case, '_' and '-')
	Class string `json:"class,omitempty"`
	Doc   string `json:"doc,omitempty"`
	// Build: builder program (op "build"): Module is the builders module, the
	// program's Builder the builder class name; nested programs use the same module
	Build *BuildProgram `json:"build,omitempty"`
}

type PyResponse struct {
	ID      int    `json:"id"`
	Error   string `json:"error,omitempty"`   // exception text (type: message)
	Missing bool   `json:"missing,omitempty"` // class not found
	Encoded string `json:"encoded,omitempty"`
	Class   string `json:"class,omitempty"`
	// build
	NoSuchOption string `json:"no_such_option,omitempty"`
	// RaisedIn: "option" when an option call raised, "build" when build() did
	RaisedIn string `json:"raised_in,omitempty"`
}

func (b *PyBatch) Exec(reqs []PyRequest) ([]PyResponse, error) {
	var in bytes.Buffer
	enc := json.NewEncoder(&in)
	for _, r := range reqs {
		if err := enc.Encode(r); err != nil {
			return nil, err
		}
	}
	cmd := exec.Command("python3", "-B", "zzdriver.py")
	cmd.Dir = b.Dir
	cmd.Stdin = &in
	cmd.Env = append(os.Environ(), "PYTHONDONTWRITEBYTECODE=1", "PYTHONHASHSEED=0")
	var out, errb bytes.Buffer
	cmd.Stdout = &out
	cmd.Stderr = &errb
	if err := cmd.Run(); err != nil {
		return nil, fmt.Errorf("python driver failed: %v\n%s", err, tailStr(errb.String(), 2000))
	}
	byID := map[int]PyResponse{}
	sc := bufio.NewScanner(&out)
	sc.Buffer(make([]byte, 1<<20), 64<<20)
	for sc.Scan() {
		var r PyResponse
		if err := json.Unmarshal(sc.Bytes(), &r); err != nil {
			return nil, fmt.Errorf("bad python driver output %q: %v", tailStr(sc.Text(), 200), err)
		}
		byID[r.ID] = r
	}
	res := make([]PyResponse, len(reqs))
	for i, r := range reqs {
		resp, ok := byID[r.ID]
		if !ok {
			return nil, fmt.Errorf("python driver gave no answer for request %d", r.ID)
		}
		res[i] = resp
	}
	return res, nil
}

const pyDriver = `import importlib, json, sys, traceback

def norm(s):
    return s.replace("_", "").replace("-", "").lower()

def find_class(mod, name):
    for attr in dir(mod):
        if norm(attr) == norm(name) and isinstance(getattr(mod, attr), type):
            return attr, getattr(mod, attr)
    return None, None

class NoSuchOption(Exception):
    pass

def run_program(mod, prog):
    attr, cls = find_class(mod, prog["builder"])
    if cls is None:
        raise NoSuchOption("builder " + prog["builder"])
    b = cls()
    for call in prog.get("calls") or []:
        method = None
        for name in dir(b):
            if norm(name) == norm(call["option"]) and callable(getattr(b, name)) and not name.startswith("__"):
                method = getattr(b, name)
        if method is None:
            raise NoSuchOption(call["option"])
        args = []
        for a in call.get("args") or []:
            if a.get("builder") is not None:
                args.append(run_program(mod, a["builder"]))
            elif a.get("builders") is not None:
                args.append([run_program(mod, p) for p in a["builders"]])
            elif a.get("builder_map") is not None:
                args.append({k: run_program(mod, p) for k, p in a["builder_map"].items()})
            else:
                args.append(json.loads(a["json"]))
        method(*args)
    return b

def handle(req):
    resp = {"id": req["id"]}
    try:
        mod = importlib.import_module(req["module"])
        if req["op"] == "import":
            return resp
        if req["op"] == "build":
            encoder = importlib.import_module(req["encoder"]).JSONEncoder
            try:
                b = run_program(mod, req["build"])
            except NoSuchOption as e:
                resp["no_such_option"] = str(e)
                return resp
            except BaseException as e:
                resp["raised_in"] = "option"
                resp["error"] = type(e).__name__ + ": " + str(e)
                return resp
            try:
                obj = b.build()
            except BaseException as e:
                resp["raised_in"] = "build"
                resp["error"] = type(e).__name__ + ": " + str(e)
                return resp
            resp["encoded"] = json.dumps(obj, cls=encoder)
            return resp
        attr, cls = find_class(mod, req["class"])
        if cls is None:
            resp["missing"] = True
            return resp
        resp["class"] = attr
        encoder = importlib.import_module(req["encoder"]).JSONEncoder
        if req["op"] == "roundtrip":
            obj = cls.from_json(json.loads(req["doc"]))
            resp["encoded"] = json.dumps(obj, cls=encoder)
        elif req["op"] == "default":
            resp["encoded"] = json.dumps(cls(), cls=encoder)
    except BaseException as e:
        resp["error"] = type(e).__name__ + ": " + str(e)
    return resp

for line in sys.stdin:
    line = line.strip()
    if not line:
        continue
    req = json.loads(line)
    sys.stdout.write(json.dumps(handle(req)) + "\n")
sys.stdout.flush()
`
