package e2

import (
	"bufio"
	"bytes"
	"encoding/json"
	"fmt"
	"go/ast"
	"go/parser"
	"go/token"
	"os"
	"os/exec"
	"path/filepath"
	"regexp"
	"sort"
	"strings"
	"time"
)

// Batch is a scratch Go module holding the generated trees of several cases
// (each under its own directory, with its own copy of cog's runtime), compiled
// together and driven by one reflective driver binary.
type Batch struct {
	Dir   string
	cases []string
	// Types per case: exported type name -> has a NewX() constructor
	Types map[string]map[string]bool
	// PkgOf: case -> type -> import path
	PkgOf map[string]map[string]string
	// NoDriver: only type-check, do not build the reflective driver
	NoDriver bool
	// CompileErrors per case (empty = the case type-checks)
	CompileErrors map[string][]string
	driver        string
	// Extra files compiled into a case's cog runtime package (e.g. the Dump
	// helper converters need)
	BuildTime time.Duration
}

const modName = "verifgen"

func NewBatch(dir string) (*Batch, error) {
	if err := os.MkdirAll(dir, 0o755); err != nil {
		return nil, err
	}
	if err := os.WriteFile(filepath.Join(dir, "go.mod"), []byte("module "+modName+"\n\ngo 1.21\n"), 0o644); err != nil {
		return nil, err
	}
	return &Batch{Dir: dir, Types: map[string]map[string]bool{}, PkgOf: map[string]map[string]string{}, CompileErrors: map[string][]string{}}, nil
}

func (b *Batch) Close() { _ = os.RemoveAll(b.Dir) }

// Add writes the files of one case (paths must start with "<caseID>/").
func (b *Batch) Add(caseID string, files Files) error {
	b.cases = append(b.cases, caseID)
	b.Types[caseID] = map[string]bool{}
	b.PkgOf[caseID] = map[string]string{}
	for _, p := range files.Paths() {
		if !strings.HasSuffix(p, ".go") {
			continue
		}
		full := filepath.Join(b.Dir, p)
		if err := os.MkdirAll(filepath.Dir(full), 0o755); err != nil {
			return err
		}
		if err := os.WriteFile(full, files[p], 0o644); err != nil {
			return err
		}
		// collect exported types and constructors of non-runtime packages
		pkgDir := filepath.Dir(p)
		if filepath.Base(pkgDir) == "cog" || strings.Contains(pkgDir, "/cog/") {
			continue
		}
		fset := token.NewFileSet()
		f, err := parser.ParseFile(fset, p, files[p], 0)
		if err != nil {
			continue // the compiler will report it
		}
		ctors := map[string]bool{}
		for _, d := range f.Decls {
			switch decl := d.(type) {
			case *ast.GenDecl:
				if decl.Tok != token.TYPE {
					continue
				}
				for _, s := range decl.Specs {
					ts := s.(*ast.TypeSpec)
					if ts.Name.IsExported() && ts.TypeParams == nil {
						if _, seen := b.Types[caseID][ts.Name.Name]; !seen {
							b.Types[caseID][ts.Name.Name] = false
							b.PkgOf[caseID][ts.Name.Name] = modName + "/" + filepath.ToSlash(pkgDir)
						}
					}
				}
			case *ast.FuncDecl:
				if decl.Recv == nil && strings.HasPrefix(decl.Name.Name, "New") && decl.Type.Params.NumFields() == 0 && decl.Type.Results.NumFields() == 1 {
					ctors[strings.TrimPrefix(decl.Name.Name, "New")] = true
				}
			}
		}
		for name := range ctors {
			if _, ok := b.Types[caseID][name]; ok {
				b.Types[caseID][name] = true
			}
		}
	}
	return nil
}

func goEnv() []string {
	env := os.Environ()
	return append(env, "GOFLAGS=-mod=mod", "GOPROXY=off", "GOSUMDB=off", "GOTOOLCHAIN=local", "GOWORK=off")
}

var reErrLine = regexp.MustCompile(`^([^\s:]+\.go):(\d+):(\d+): (.*)$`)

// Build type-checks every case (go build ./...), then builds the driver for
// the cases that compile.
func (b *Batch) Build() error {
	start := time.Now()
	cmd := exec.Command("go", "build", "./...")
	cmd.Dir = b.Dir
	cmd.Env = goEnv()
	out, err := cmd.CombinedOutput()
	if err != nil {
		// attribute the diagnostics to cases by path prefix
		attributed := false
		for _, line := range strings.Split(string(out), "\n") {
			m := reErrLine.FindStringSubmatch(strings.TrimSpace(line))
			if m == nil {
				continue
			}
			caseID := strings.SplitN(filepath.ToSlash(m[1]), "/", 2)[0]
			b.CompileErrors[caseID] = append(b.CompileErrors[caseID], strings.TrimSpace(line))
			attributed = true
		}
		if !attributed {
			return fmt.Errorf("go build failed without attributable diagnostics: %v\n%s", err, out)
		}
	}
	if !b.NoDriver {
		if err := b.buildDriver(); err != nil {
			return err
		}
	}
	b.BuildTime = time.Since(start)
	return nil
}

func (b *Batch) buildDriver() error {
	drv := filepath.Join(b.Dir, "zzdriver")
	if err := os.MkdirAll(drv, 0o755); err != nil {
		return err
	}
	var reg bytes.Buffer
	reg.WriteString("package main\n\nimport (\n")
	alias := map[string]string{}
	n := 0
	for _, c := range b.cases {
		if len(b.CompileErrors[c]) > 0 {
			continue
		}
		pkgs := map[string]bool{}
		for _, p := range b.PkgOf[c] {
			pkgs[p] = true
		}
		var sorted []string
		for p := range pkgs {
			sorted = append(sorted, p)
		}
		sort.Strings(sorted)
		for _, p := range sorted {
			n++
			alias[p] = fmt.Sprintf("p%d", n)
			fmt.Fprintf(&reg, "\t%s %q\n", alias[p], p)
		}
	}
	reg.WriteString(")\n\nfunc init() {\n")
	for _, c := range b.cases {
		if len(b.CompileErrors[c]) > 0 {
			continue
		}
		var names []string
		for t := range b.Types[c] {
			names = append(names, t)
		}
		sort.Strings(names)
		for _, t := range names {
			a := alias[b.PkgOf[c][t]]
			fmt.Fprintf(&reg, "\treg[%q] = entry{New: func() any { return new(%s.%s) }", c+"/"+t, a, t)
			if b.Types[c][t] {
				fmt.Fprintf(&reg, ", Ctor: func() any { return %s.New%s() }", a, t)
			}
			reg.WriteString("}\n")
		}
	}
	reg.WriteString("}\n")
	if err := os.WriteFile(filepath.Join(drv, "registry.go"), reg.Bytes(), 0o644); err != nil {
		return err
	}
	if err := os.WriteFile(filepath.Join(drv, "main.go"), []byte(driverMain), 0o644); err != nil {
		return err
	}
	b.driver = filepath.Join(b.Dir, "driver.bin")
	cmd := exec.Command("go", "build", "-o", b.driver, "./zzdriver")
	cmd.Dir = b.Dir
	cmd.Env = goEnv()
	out, err := cmd.CombinedOutput()
	if err != nil {
		return fmt.Errorf("driver build failed: %v\n%s", err, out)
	}
	return nil
}

// Request is one driver operation.
type Request struct {
	ID  int    `json:"id"`
	Key string `json:"key"` // "<case>/<GoType>"
	Op  string `json:"op"`  // roundtrip | validate | equals | default
	Doc string `json:"doc,omitempty"`
	// Doc2: second document (equals)
	Doc2 string `json:"doc2,omitempty"`
}

// Response is the driver's answer.
type Response struct {
	ID        int    `json:"id"`
	Missing   bool   `json:"missing,omitempty"` // unknown key
	Panic     string `json:"panic,omitempty"`
	StdErr    string `json:"std_err,omitempty"`
	HasStrict bool   `json:"has_strict,omitempty"`
	StrictErr string `json:"strict_err,omitempty"`
	Encoded   string `json:"encoded,omitempty"`
	EncodeErr string `json:"encode_err,omitempty"`
	// StrictEncoded: re-encoding of the value the strict decoder produced
	StrictEncoded string `json:"strict_encoded,omitempty"`
	// validate
	HasValidate bool         `json:"has_validate,omitempty"`
	ValidateErr string       `json:"validate_err,omitempty"`
	Errors      []BuildError `json:"errors,omitempty"`
	// equals
	HasEquals bool   `json:"has_equals,omitempty"`
	Equal     bool   `json:"equal,omitempty"`
	EqualRev  bool   `json:"equal_rev,omitempty"`
	Encoded2  string `json:"encoded2,omitempty"`
	// default
	HasCtor bool `json:"has_ctor,omitempty"`
}

type BuildError struct {
	Path    string `json:"path"`
	Message string `json:"message"`
}

// Exec runs the requests through the driver.
func (b *Batch) Exec(reqs []Request) ([]Response, error) {
	if b.driver == "" {
		return nil, fmt.Errorf("driver not built")
	}
	var in bytes.Buffer
	enc := json.NewEncoder(&in)
	for _, r := range reqs {
		if err := enc.Encode(r); err != nil {
			return nil, err
		}
	}
	cmd := exec.Command(b.driver)
	cmd.Stdin = &in
	var out, errb bytes.Buffer
	cmd.Stdout = &out
	cmd.Stderr = &errb
	if err := cmd.Run(); err != nil {
		return nil, fmt.Errorf("driver failed: %v\n%s", err, tailStr(errb.String(), 2000))
	}
	byID := map[int]Response{}
	sc := bufio.NewScanner(&out)
	sc.Buffer(make([]byte, 1<<20), 64<<20)
	for sc.Scan() {
		var r Response
		if err := json.Unmarshal(sc.Bytes(), &r); err != nil {
			return nil, fmt.Errorf("bad driver output %q: %v", tailStr(sc.Text(), 200), err)
		}
		byID[r.ID] = r
	}
	res := make([]Response, len(reqs))
	for i, r := range reqs {
		resp, ok := byID[r.ID]
		if !ok {
			return nil, fmt.Errorf("driver gave no answer for request %d", r.ID)
		}
		res[i] = resp
	}
	return res, nil
}

func tailStr(s string, n int) string {
	if len(s) > n {
		return s[len(s)-n:]
	}
	return s
}

const driverMain = `package main

import (
	"bufio"
	"encoding/json"
	"fmt"
	"os"
	"reflect"
)

type entry struct {
	New  func() any
	Ctor func() any
}

var reg = map[string]entry{}

type request struct {
	ID   int    ` + "`json:\"id\"`" + `
	Key  string ` + "`json:\"key\"`" + `
	Op   string ` + "`json:\"op\"`" + `
	Doc  string ` + "`json:\"doc\"`" + `
	Doc2 string ` + "`json:\"doc2\"`" + `
}

type buildError struct {
	Path    string ` + "`json:\"path\"`" + `
	Message string ` + "`json:\"message\"`" + `
}

type response struct {
	ID            int          ` + "`json:\"id\"`" + `
	Missing       bool         ` + "`json:\"missing,omitempty\"`" + `
	Panic         string       ` + "`json:\"panic,omitempty\"`" + `
	StdErr        string       ` + "`json:\"std_err,omitempty\"`" + `
	HasStrict     bool         ` + "`json:\"has_strict,omitempty\"`" + `
	StrictErr     string       ` + "`json:\"strict_err,omitempty\"`" + `
	Encoded       string       ` + "`json:\"encoded,omitempty\"`" + `
	EncodeErr     string       ` + "`json:\"encode_err,omitempty\"`" + `
	StrictEncoded string       ` + "`json:\"strict_encoded,omitempty\"`" + `
	HasValidate   bool         ` + "`json:\"has_validate,omitempty\"`" + `
	ValidateErr   string       ` + "`json:\"validate_err,omitempty\"`" + `
	Errors        []buildError ` + "`json:\"errors,omitempty\"`" + `
	HasEquals     bool         ` + "`json:\"has_equals,omitempty\"`" + `
	Equal         bool         ` + "`json:\"equal,omitempty\"`" + `
	EqualRev      bool         ` + "`json:\"equal_rev,omitempty\"`" + `
	Encoded2      string       ` + "`json:\"encoded2,omitempty\"`" + `
	HasCtor       bool         ` + "`json:\"has_ctor,omitempty\"`" + `
}

func errString(err error) string {
	if err == nil {
		return ""
	}
	s := err.Error()
	if s == "" {
		s = "(empty error message)"
	}
	return s
}

func callErr(m reflect.Value, args ...reflect.Value) error {
	out := m.Call(args)
	if len(out) == 0 || out[0].IsNil() {
		return nil
	}
	return out[0].Interface().(error)
}

// flatten lists the {Path, Message} pairs of a BuildErrors value (any slice of
// pointers to structs with those two fields), recursively through wrapped errors.
func flatten(err error, out *[]buildError) {
	if err == nil {
		return
	}
	v := reflect.ValueOf(err)
	if v.Kind() == reflect.Slice {
		for i := 0; i < v.Len(); i++ {
			e := v.Index(i)
			if e.Kind() == reflect.Ptr && !e.IsNil() && e.Elem().Kind() == reflect.Struct {
				p, m := e.Elem().FieldByName("Path"), e.Elem().FieldByName("Message")
				if p.IsValid() && m.IsValid() {
					*out = append(*out, buildError{Path: p.String(), Message: m.String()})
				}
			}
		}
		return
	}
	if v.Kind() == reflect.Ptr && !v.IsNil() && v.Elem().Kind() == reflect.Struct {
		p, m := v.Elem().FieldByName("Path"), v.Elem().FieldByName("Message")
		if p.IsValid() && m.IsValid() && p.Kind() == reflect.String {
			*out = append(*out, buildError{Path: p.String(), Message: m.String()})
		}
	}
}

func handle(req request) (resp response) {
	resp.ID = req.ID
	defer func() {
		if r := recover(); r != nil {
			resp.Panic = fmt.Sprint(r)
		}
	}()
	e, ok := reg[req.Key]
	if !ok {
		resp.Missing = true
		return
	}
	switch req.Op {
	case "roundtrip":
		v := e.New()
		resp.StdErr = errString(json.Unmarshal([]byte(req.Doc), v))
		if resp.StdErr == "" {
			out, err := json.Marshal(v)
			resp.Encoded, resp.EncodeErr = string(out), errString(err)
		}
		v2 := e.New()
		if m := reflect.ValueOf(v2).MethodByName("UnmarshalJSONStrict"); m.IsValid() {
			resp.HasStrict = true
			resp.StrictErr = errString(callErr(m, reflect.ValueOf([]byte(req.Doc))))
			if resp.StrictErr == "" {
				out, err := json.Marshal(v2)
				if err == nil {
					resp.StrictEncoded = string(out)
				}
			}
		}
	case "validate":
		v := e.New()
		resp.StdErr = errString(json.Unmarshal([]byte(req.Doc), v))
		if resp.StdErr != "" {
			return
		}
		if m := reflect.ValueOf(v).MethodByName("Validate"); m.IsValid() {
			resp.HasValidate = true
			err := callErr(m)
			resp.ValidateErr = errString(err)
			flatten(err, &resp.Errors)
		}
	case "equals":
		a, b := e.New(), e.New()
		resp.StdErr = errString(json.Unmarshal([]byte(req.Doc), a))
		if resp.StdErr == "" {
			resp.StdErr = errString(json.Unmarshal([]byte(req.Doc2), b))
		}
		if resp.StdErr != "" {
			return
		}
		oa, _ := json.Marshal(a)
		ob, _ := json.Marshal(b)
		resp.Encoded, resp.Encoded2 = string(oa), string(ob)
		m := reflect.ValueOf(a).MethodByName("Equals")
		if m.IsValid() && m.Type().NumIn() == 1 {
			resp.HasEquals = true
			arg := reflect.ValueOf(b)
			if m.Type().In(0).Kind() != reflect.Ptr {
				arg = arg.Elem()
			}
			resp.Equal = m.Call([]reflect.Value{arg})[0].Bool()
			m2 := reflect.ValueOf(b).MethodByName("Equals")
			arg2 := reflect.ValueOf(a)
			if m2.Type().In(0).Kind() != reflect.Ptr {
				arg2 = arg2.Elem()
			}
			resp.EqualRev = m2.Call([]reflect.Value{arg2})[0].Bool()
		}
	case "default":
		if e.Ctor == nil {
			return
		}
		resp.HasCtor = true
		out, err := json.Marshal(e.Ctor())
		resp.Encoded, resp.EncodeErr = string(out), errString(err)
	}
	return
}

func main() {
	sc := bufio.NewScanner(os.Stdin)
	sc.Buffer(make([]byte, 1<<20), 64<<20)
	w := bufio.NewWriter(os.Stdout)
	defer w.Flush()
	enc := json.NewEncoder(w)
	for sc.Scan() {
		var req request
		if err := json.Unmarshal(sc.Bytes(), &req); err != nil {
			continue
		}
		_ = enc.Encode(handle(req))
	}
}
`
