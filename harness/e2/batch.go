package e2

import (
	"bufio"
	"bytes"
	"encoding/json"
	"fmt"
	"go/ast"
	"go/parser"
	"go/token"
	"os"
	"os/exec"
	"path/filepath"
	"regexp"
	"sort"
	"strings"
	"time"
)

// Batch is a scratch Go module holding the generated trees of several cases
// (each under its own directory, with its own copy of cog's runtime), compiled
// together and driven by one reflective driver binary.
type Batch struct {
	Dir   string
	cases []string
	// Types per case: exported type name -> has a NewX() constructor
	Types map[string]map[string]bool
	// PkgOf: case -> type -> import path
	PkgOf map[string]map[string]string
	// Builders: case id -> builder type name (XBuilder) -> import path, for the
	// zero-argument constructors NewXBuilder
	Builders map[string]map[string]string
	// Converters: case id -> converter function name (XConverter) -> import
	// path; ConverterArg: its parameter type as written (X or *X)
	Converters   map[string]map[string]string
	ConverterArg map[string]map[string]string
	// NoDriver: only type-check, do not build the reflective driver
	NoDriver bool
	// CompileErrors per case (empty = the case type-checks)
	CompileErrors map[string][]string
	driver        string
	// Extra files compiled into a case's cog runtime package (e.g. the Dump
	// helper converters need)
	BuildTime time.Duration
}

const modName = "verifgen"

func NewBatch(dir string) (*Batch, error) {
	if err := os.MkdirAll(dir, 0o755); err != nil {
		return nil, err
	}
	if err := os.WriteFile(filepath.Join(dir, "go.mod"), []byte("module "+modName+"\n\ngo 1.21\n"), 0o644); err != nil {
		return nil, err
	}
	return &Batch{Dir: dir, Types: map[string]map[string]bool{}, PkgOf: map[string]map[string]string{}, CompileErrors: map[string][]string{}, Builders: map[string]map[string]string{}, Converters: map[string]map[string]string{}, ConverterArg: map[string]map[string]string{}}, nil
}

func (b *Batch) Close() { _ = os.RemoveAll(b.Dir) }

// Add writes the files of one case (paths must start with "<caseID>/").
func (b *Batch) Add(caseID string, files Files) error {
	b.cases = append(b.cases, caseID)
	b.Types[caseID] = map[string]bool{}
	b.PkgOf[caseID] = map[string]string{}
	b.Builders[caseID] = map[string]string{}
	b.Converters[caseID] = map[string]string{}
	b.ConverterArg[caseID] = map[string]string{}
	for _, p := range files.Paths() {
		if !strings.HasSuffix(p, ".go") {
			continue
		}
		full := filepath.Join(b.Dir, p)
		if err := os.MkdirAll(filepath.Dir(full), 0o755); err != nil {
			return err
		}
		if err := os.WriteFile(full, files[p], 0o644); err != nil {
			return err
		}
		// collect exported types and constructors of non-runtime packages
		pkgDir := filepath.Dir(p)
		if filepath.Base(pkgDir) == "cog" || strings.Contains(pkgDir, "/cog/") {
			continue
		}
		fset := token.NewFileSet()
		f, err := parser.ParseFile(fset, p, files[p], 0)
		if err != nil {
			continue // the compiler will report it
		}
		ctors := map[string]bool{}
		for _, d := range f.Decls {
			switch decl := d.(type) {
			case *ast.GenDecl:
				if decl.Tok != token.TYPE {
					continue
				}
				for _, s := range decl.Specs {
					ts := s.(*ast.TypeSpec)
					if ts.Name.IsExported() && ts.TypeParams == nil {
						if _, seen := b.Types[caseID][ts.Name.Name]; !seen {
							b.Types[caseID][ts.Name.Name] = false
							b.PkgOf[caseID][ts.Name.Name] = modName + "/" + filepath.ToSlash(pkgDir)
						}
					}
				}
			case *ast.FuncDecl:
				if decl.Recv == nil && strings.HasSuffix(decl.Name.Name, "Converter") && decl.Type.Params.NumFields() == 1 && decl.Type.Results.NumFields() == 1 {
					switch pt := decl.Type.Params.List[0].Type.(type) {
					case *ast.Ident:
						b.Converters[caseID][decl.Name.Name] = modName + "/" + filepath.ToSlash(pkgDir)
						b.ConverterArg[caseID][decl.Name.Name] = pt.Name
					case *ast.StarExpr:
						if id, ok := pt.X.(*ast.Ident); ok {
							b.Converters[caseID][decl.Name.Name] = modName + "/" + filepath.ToSlash(pkgDir)
							b.ConverterArg[caseID][decl.Name.Name] = "*" + id.Name
						}
					}
				}
				if decl.Recv == nil && strings.HasPrefix(decl.Name.Name, "New") && decl.Type.Params.NumFields() == 0 && decl.Type.Results.NumFields() == 1 {
					ctors[strings.TrimPrefix(decl.Name.Name, "New")] = true
					if name := strings.TrimPrefix(decl.Name.Name, "New"); strings.HasSuffix(name, "Builder") && name != "Builder" {
						b.Builders[caseID][name] = modName + "/" + filepath.ToSlash(pkgDir)
					}
				}
			}
		}
		for name := range ctors {
			if _, ok := b.Types[caseID][name]; ok {
				b.Types[caseID][name] = true
			}
		}
	}
	return nil
}

func goEnv() []string {
	env := os.Environ()
	return append(env, "GOFLAGS=-mod=mod", "GOPROXY=off", "GOSUMDB=off", "GOTOOLCHAIN=local", "GOWORK=off", "GOCACHE="+ScratchCache())
}

// ScratchCache is the build cache of the scratch modules. Every batch compiles
// packages under names of its own, so their objects are never reused: kept in
// the user's build cache they only pile up (134 GB after a day of runs here).
// They go to a cache of the harness' own, which the driver trims at the start
// of every run (cmd/verif trimScratchCache). VERIF_GOCACHE overrides the place.
func ScratchCache() string {
	if c := os.Getenv("VERIF_GOCACHE"); c != "" {
		return c
	}
	root := os.Getenv("VERIF_ROOT")
	if root == "" {
		root = "/verif"
	}
	return filepath.Join(root, ".gocache")
}

var reErrLine = regexp.MustCompile(`^([^\s:]+\.go):(\d+):(\d+): (.*)$`)

// Build type-checks every case (go build ./...), then builds the driver for
// the cases that compile.
func (b *Batch) Build() error {
	start := time.Now()
	cmd := exec.Command("go", "build", "./...")
	cmd.Dir = b.Dir
	cmd.Env = goEnv()
	out, err := cmd.CombinedOutput()
	if err != nil {
		// attribute the diagnostics to cases by path prefix
		attributed := false
		for _, line := range strings.Split(string(out), "\n") {
			m := reErrLine.FindStringSubmatch(strings.TrimSpace(line))
			if m == nil {
				continue
			}
			caseID := strings.SplitN(filepath.ToSlash(m[1]), "/", 2)[0]
			b.CompileErrors[caseID] = append(b.CompileErrors[caseID], strings.TrimSpace(line))
			attributed = true
		}
		if !attributed {
			return fmt.Errorf("go build failed without attributable diagnostics: %v\n%s", err, out)
		}
	}
	if !b.NoDriver {
		if err := b.buildDriver(); err != nil {
			return err
		}
	}
	b.BuildTime = time.Since(start)
	return nil
}

func (b *Batch) buildDriver() error {
	drv := filepath.Join(b.Dir, "zzdriver")
	if err := os.MkdirAll(drv, 0o755); err != nil {
		return err
	}
	var reg bytes.Buffer
	reg.WriteString("package main\n\nimport (\n\t\"encoding/json\"\n")
	alias := map[string]string{}
	n := 0
	for _, c := range b.cases {
		if len(b.CompileErrors[c]) > 0 {
			continue
		}
		pkgs := map[string]bool{}
		for _, p := range b.PkgOf[c] {
			pkgs[p] = true
		}
		for _, p := range b.Builders[c] {
			pkgs[p] = true
		}
		for _, p := range b.Converters[c] {
			pkgs[p] = true
		}
		var sorted []string
		for p := range pkgs {
			sorted = append(sorted, p)
		}
		sort.Strings(sorted)
		for _, p := range sorted {
			n++
			alias[p] = fmt.Sprintf("p%d", n)
			fmt.Fprintf(&reg, "\t%s %q\n", alias[p], p)
		}
	}
	reg.WriteString(")\n\nvar _ = json.Marshal\n\nfunc init() {\n")
	for _, c := range b.cases {
		if len(b.CompileErrors[c]) > 0 {
			continue
		}
		var names []string
		for t := range b.Types[c] {
			names = append(names, t)
		}
		sort.Strings(names)
		for _, t := range names {
			a := alias[b.PkgOf[c][t]]
			fmt.Fprintf(&reg, "\treg[%q] = entry{New: func() any { return new(%s.%s) }", c+"/"+t, a, t)
			if b.Types[c][t] {
				fmt.Fprintf(&reg, ", Ctor: func() any { return %s.New%s() }", a, t)
			}
			reg.WriteString("}\n")
		}
		var bnames []string
		for n := range b.Builders[c] {
			bnames = append(bnames, n)
		}
		sort.Strings(bnames)
		for _, n := range bnames {
			fmt.Fprintf(&reg, "\tbreg[%q] = func() any { return %s.New%s() }\n", c+"/"+n, alias[b.Builders[c][n]], n)
		}
		var cnames []string
		for n := range b.Converters[c] {
			cnames = append(cnames, n)
		}
		sort.Strings(cnames)
		for _, n := range cnames {
			a := alias[b.Converters[c][n]]
			argType := strings.TrimPrefix(b.ConverterArg[c][n], "*")
			arg := "v"
			if strings.HasPrefix(b.ConverterArg[c][n], "*") {
				arg = "&v"
			}
			fmt.Fprintf(&reg, "\tcreg[%q] = func(doc []byte) (string, string, error) { var v %s.%s; if err := json.Unmarshal(doc, &v); err != nil { return \"\", \"\", err }; enc, _ := json.Marshal(v); return %s.%s(%s), string(enc), nil }\n", c+"/"+n, a, argType, a, n, arg)
		}
	}
	reg.WriteString("}\n")
	if err := os.WriteFile(filepath.Join(drv, "registry.go"), reg.Bytes(), 0o644); err != nil {
		return err
	}
	if err := os.WriteFile(filepath.Join(drv, "main.go"), []byte(driverMain), 0o644); err != nil {
		return err
	}
	b.driver = filepath.Join(b.Dir, "driver.bin")
	cmd := exec.Command("go", "build", "-o", b.driver, "./zzdriver")
	cmd.Dir = b.Dir
	cmd.Env = goEnv()
	out, err := cmd.CombinedOutput()
	if err != nil {
		return fmt.Errorf("driver build failed: %v\n%s", err, out)
	}
	return nil
}

// Request is one driver operation.
type Request struct {
	ID  int    `json:"id"`
	Key string `json:"key"` // "<case>/<GoType>"
	Op  string `json:"op"`  // roundtrip | validate | equals | default
	Doc string `json:"doc,omitempty"`
	// Doc2: second document (equals)
	Doc2 string `json:"doc2,omitempty"`
	// Build: builder program (op "build"; Key is "<case>/<XBuilder>")
	Build *BuildProgram `json:"build,omitempty"`
}

// BuildProgram creates a builder, calls options on it and builds.
type BuildProgram struct {
	Builder string      `json:"builder"` // "<case>/<XBuilder>"
	Calls   []BuildCall `json:"calls"`
}

type BuildCall struct {
	Option string     `json:"option"` // matched against method names ignoring case and underscores
	Args   []BuildArg `json:"args"`
}

// BuildArg is a JSON value, or nested builder(s).
type BuildArg struct {
	JSON       string                  `json:"json,omitempty"`
	Builder    *BuildProgram           `json:"builder,omitempty"`
	Builders   []BuildProgram          `json:"builders,omitempty"`
	BuilderMap map[string]BuildProgram `json:"builder_map,omitempty"`
}

// Response is the driver's answer.
type Response struct {
	ID        int    `json:"id"`
	Missing   bool   `json:"missing,omitempty"` // unknown key
	Panic     string `json:"panic,omitempty"`
	StdErr    string `json:"std_err,omitempty"`
	HasStrict bool   `json:"has_strict,omitempty"`
	StrictErr string `json:"strict_err,omitempty"`
	Encoded   string `json:"encoded,omitempty"`
	EncodeErr string `json:"encode_err,omitempty"`
	// StrictEncoded: re-encoding of the value the strict decoder produced
	StrictEncoded string `json:"strict_encoded,omitempty"`
	// validate
	HasValidate bool         `json:"has_validate,omitempty"`
	ValidateErr string       `json:"validate_err,omitempty"`
	Errors      []BuildError `json:"errors,omitempty"`
	// equals
	HasEquals bool   `json:"has_equals,omitempty"`
	Equal     bool   `json:"equal,omitempty"`
	EqualRev  bool   `json:"equal_rev,omitempty"`
	Encoded2  string `json:"encoded2,omitempty"`
	// default
	HasCtor bool `json:"has_ctor,omitempty"`
	// build
	BuildErr     string   `json:"build_err,omitempty"`
	// Held: JSON of the object inside the builder when Build() refused it
	Held string `json:"held,omitempty"`
	NoSuchOption string   `json:"no_such_option,omitempty"`
	ArgErr       string   `json:"arg_err,omitempty"`
	Options      []string `json:"options,omitempty"`
}

type BuildError struct {
	Path    string `json:"path"`
	Message string `json:"message"`
}

// Exec runs the requests through the driver.
func (b *Batch) Exec(reqs []Request) ([]Response, error) {
	if b.driver == "" {
		return nil, fmt.Errorf("driver not built")
	}
	var in bytes.Buffer
	enc := json.NewEncoder(&in)
	for _, r := range reqs {
		if err := enc.Encode(r); err != nil {
			return nil, err
		}
	}
	cmd := exec.Command(b.driver)
	cmd.Stdin = &in
	var out, errb bytes.Buffer
	cmd.Stdout = &out
	cmd.Stderr = &errb
	if err := cmd.Run(); err != nil {
		return nil, fmt.Errorf("driver failed: %v\n%s", err, tailStr(errb.String(), 2000))
	}
	byID := map[int]Response{}
	sc := bufio.NewScanner(&out)
	sc.Buffer(make([]byte, 1<<20), 64<<20)
	for sc.Scan() {
		var r Response
		if err := json.Unmarshal(sc.Bytes(), &r); err != nil {
			return nil, fmt.Errorf("bad driver output %q: %v", tailStr(sc.Text(), 200), err)
		}
		byID[r.ID] = r
	}
	res := make([]Response, len(reqs))
	for i, r := range reqs {
		resp, ok := byID[r.ID]
		if !ok {
			return nil, fmt.Errorf("driver gave no answer for request %d", r.ID)
		}
		res[i] = resp
	}
	return res, nil
}

func tailStr(s string, n int) string {
	if len(s) > n {
		return s[len(s)-n:]
	}
	return s
}

const driverMain = `package main

import (
	"bufio"
	"encoding/json"
	"fmt"
	"os"
	"reflect"
	"unsafe"
)

type entry struct {
	New  func() any
	Ctor func() any
}

var reg = map[string]entry{}
var breg = map[string]func() any{}
var creg = map[string]func(doc []byte) (string, string, error){}

type buildProgram struct {
	Builder string      ` + "`json:\"builder\"`" + `
	Calls   []buildCall ` + "`json:\"calls\"`" + `
}

type buildCall struct {
	Option string     ` + "`json:\"option\"`" + `
	Args   []buildArg ` + "`json:\"args\"`" + `
}

type buildArg struct {
	JSON       string                  ` + "`json:\"json\"`" + `
	Builder    *buildProgram           ` + "`json:\"builder\"`" + `
	Builders   []buildProgram          ` + "`json:\"builders\"`" + `
	BuilderMap map[string]buildProgram ` + "`json:\"builder_map\"`" + `
}

type buildFailure struct{ kind, msg string }

func normName(s string) string {
	out := make([]rune, 0, len(s))
	for _, r := range s {
		if r == '_' {
			continue
		}
		if r >= 'A' && r <= 'Z' {
			r += 'a' - 'A'
		}
		out = append(out, r)
	}
	return string(out)
}

// runProgram instantiates the builder and applies the calls; it returns the
// builder value.
func runProgram(p buildProgram) (reflect.Value, *buildFailure) {
	ctor, ok := breg[p.Builder]
	if !ok {
		return reflect.Value{}, &buildFailure{"missing", p.Builder}
	}
	bv := reflect.ValueOf(ctor())
	for _, call := range p.Calls {
		var method reflect.Value
		for i := 0; i < bv.NumMethod(); i++ {
			if normName(bv.Type().Method(i).Name) == normName(call.Option) {
				method = bv.Method(i)
			}
		}
		if !method.IsValid() {
			return bv, &buildFailure{"no-such-option", call.Option}
		}
		mt := method.Type()
		if mt.NumIn() != len(call.Args) {
			return bv, &buildFailure{"arg", fmt.Sprintf("option %s takes %d arguments, %d given", call.Option, mt.NumIn(), len(call.Args))}
		}
		args := make([]reflect.Value, 0, len(call.Args))
		for i, a := range call.Args {
			pt := mt.In(i)
			switch {
			case a.Builder != nil:
				nested, fail := runProgram(*a.Builder)
				if fail != nil {
					return bv, fail
				}
				if !nested.Type().AssignableTo(pt) {
					return bv, &buildFailure{"arg", fmt.Sprintf("%s is not assignable to %s", nested.Type(), pt)}
				}
				args = append(args, nested)
			case a.Builders != nil:
				if pt.Kind() != reflect.Slice {
					return bv, &buildFailure{"arg", fmt.Sprintf("%s is not a slice", pt)}
				}
				list := reflect.MakeSlice(pt, 0, len(a.Builders))
				for _, np := range a.Builders {
					nested, fail := runProgram(np)
					if fail != nil {
						return bv, fail
					}
					if !nested.Type().AssignableTo(pt.Elem()) {
						return bv, &buildFailure{"arg", fmt.Sprintf("%s is not assignable to %s", nested.Type(), pt.Elem())}
					}
					list = reflect.Append(list, nested)
				}
				args = append(args, list)
			case a.BuilderMap != nil:
				if pt.Kind() != reflect.Map {
					return bv, &buildFailure{"arg", fmt.Sprintf("%s is not a map", pt)}
				}
				m := reflect.MakeMap(pt)
				for k, np := range a.BuilderMap {
					nested, fail := runProgram(np)
					if fail != nil {
						return bv, fail
					}
					if !nested.Type().AssignableTo(pt.Elem()) {
						return bv, &buildFailure{"arg", fmt.Sprintf("%s is not assignable to %s", nested.Type(), pt.Elem())}
					}
					m.SetMapIndex(reflect.ValueOf(k), nested)
				}
				args = append(args, m)
			default:
				v := reflect.New(pt)
				if err := json.Unmarshal([]byte(a.JSON), v.Interface()); err != nil {
					return bv, &buildFailure{"arg", fmt.Sprintf("%s does not decode into %s: %v", a.JSON, pt, err)}
				}
				args = append(args, v.Elem())
			}
		}
		method.Call(args)
	}
	return bv, nil
}

type request struct {
	ID    int           ` + "`json:\"id\"`" + `
	Key   string        ` + "`json:\"key\"`" + `
	Op    string        ` + "`json:\"op\"`" + `
	Doc   string        ` + "`json:\"doc\"`" + `
	Doc2  string        ` + "`json:\"doc2\"`" + `
	Build *buildProgram ` + "`json:\"build\"`" + `
}

type buildError struct {
	Path    string ` + "`json:\"path\"`" + `
	Message string ` + "`json:\"message\"`" + `
}

type response struct {
	ID            int          ` + "`json:\"id\"`" + `
	Missing       bool         ` + "`json:\"missing,omitempty\"`" + `
	Panic         string       ` + "`json:\"panic,omitempty\"`" + `
	StdErr        string       ` + "`json:\"std_err,omitempty\"`" + `
	HasStrict     bool         ` + "`json:\"has_strict,omitempty\"`" + `
	StrictErr     string       ` + "`json:\"strict_err,omitempty\"`" + `
	Encoded       string       ` + "`json:\"encoded,omitempty\"`" + `
	EncodeErr     string       ` + "`json:\"encode_err,omitempty\"`" + `
	StrictEncoded string       ` + "`json:\"strict_encoded,omitempty\"`" + `
	HasValidate   bool         ` + "`json:\"has_validate,omitempty\"`" + `
	ValidateErr   string       ` + "`json:\"validate_err,omitempty\"`" + `
	Errors        []buildError ` + "`json:\"errors,omitempty\"`" + `
	HasEquals     bool         ` + "`json:\"has_equals,omitempty\"`" + `
	Equal         bool         ` + "`json:\"equal,omitempty\"`" + `
	EqualRev      bool         ` + "`json:\"equal_rev,omitempty\"`" + `
	Encoded2      string       ` + "`json:\"encoded2,omitempty\"`" + `
	HasCtor       bool         ` + "`json:\"has_ctor,omitempty\"`" + `
	BuildErr      string       ` + "`json:\"build_err,omitempty\"`" + `
	Held          string       ` + "`json:\"held,omitempty\"`" + `
	NoSuchOption  string       ` + "`json:\"no_such_option,omitempty\"`" + `
	ArgErr        string       ` + "`json:\"arg_err,omitempty\"`" + `
	Options       []string     ` + "`json:\"options,omitempty\"`" + `
}

func errString(err error) string {
	if err == nil {
		return ""
	}
	s := err.Error()
	if s == "" {
		s = "(empty error message)"
	}
	return s
}

func callErr(m reflect.Value, args ...reflect.Value) error {
	out := m.Call(args)
	if len(out) == 0 || out[0].IsNil() {
		return nil
	}
	return out[0].Interface().(error)
}

// flatten lists the {Path, Message} pairs of a BuildErrors value (any slice of
// pointers to structs with those two fields), recursively through wrapped errors.
func flatten(err error, out *[]buildError) {
	if err == nil {
		return
	}
	v := reflect.ValueOf(err)
	if v.Kind() == reflect.Slice {
		for i := 0; i < v.Len(); i++ {
			e := v.Index(i)
			if e.Kind() == reflect.Ptr && !e.IsNil() && e.Elem().Kind() == reflect.Struct {
				p, m := e.Elem().FieldByName("Path"), e.Elem().FieldByName("Message")
				if p.IsValid() && m.IsValid() {
					*out = append(*out, buildError{Path: p.String(), Message: m.String()})
				}
			}
		}
		return
	}
	if v.Kind() == reflect.Ptr && !v.IsNil() && v.Elem().Kind() == reflect.Struct {
		p, m := v.Elem().FieldByName("Path"), v.Elem().FieldByName("Message")
		if p.IsValid() && m.IsValid() && p.Kind() == reflect.String {
			*out = append(*out, buildError{Path: p.String(), Message: m.String()})
		}
	}
}

func handle(req request) (resp response) {
	resp.ID = req.ID
	defer func() {
		if r := recover(); r != nil {
			resp.Panic = fmt.Sprint(r)
		}
	}()
	if req.Op == "convert" {
		conv, ok := creg[req.Key]
		if !ok {
			resp.Missing = true
			return
		}
		text, enc, err := conv([]byte(req.Doc))
		resp.StdErr = errString(err)
		resp.Encoded, resp.Encoded2 = text, enc
		return
	}
	if req.Op == "build" {
		if req.Build == nil {
			resp.Missing = true
			return
		}
		bv, fail := runProgram(*req.Build)
		if bv.IsValid() {
			for i := 0; i < bv.NumMethod(); i++ {
				resp.Options = append(resp.Options, bv.Type().Method(i).Name)
			}
		}
		if fail != nil {
			switch fail.kind {
			case "missing":
				resp.Missing = true
			case "no-such-option":
				resp.NoSuchOption = fail.msg
			default:
				resp.ArgErr = fail.msg
			}
			return
		}
		out := bv.MethodByName("Build").Call(nil)
		if len(out) == 2 && !out[1].IsNil() {
			err := out[1].Interface().(error)
			resp.BuildErr = errString(err)
			flatten(err, &resp.Errors)
			// the object the builder holds, which Build() refused
			if bv.Kind() == reflect.Ptr && bv.Elem().Kind() == reflect.Struct {
				if f := bv.Elem().FieldByName("internal"); f.IsValid() && f.CanAddr() {
					held := reflect.NewAt(f.Type(), unsafe.Pointer(f.UnsafeAddr())).Elem().Interface()
					if raw, merr := json.Marshal(held); merr == nil {
						resp.Held = string(raw)
					}
				}
			}
			return
		}
		raw, err := json.Marshal(out[0].Interface())
		resp.Encoded, resp.EncodeErr = string(raw), errString(err)
		return
	}
	e, ok := reg[req.Key]
	if !ok {
		resp.Missing = true
		return
	}
	switch req.Op {
	case "roundtrip":
		v := e.New()
		resp.StdErr = errString(json.Unmarshal([]byte(req.Doc), v))
		if resp.StdErr == "" {
			out, err := json.Marshal(v)
			resp.Encoded, resp.EncodeErr = string(out), errString(err)
		}
		v2 := e.New()
		if m := reflect.ValueOf(v2).MethodByName("UnmarshalJSONStrict"); m.IsValid() {
			resp.HasStrict = true
			resp.StrictErr = errString(callErr(m, reflect.ValueOf([]byte(req.Doc))))
			if resp.StrictErr == "" {
				out, err := json.Marshal(v2)
				if err == nil {
					resp.StrictEncoded = string(out)
				}
			}
		}
	case "validate":
		v := e.New()
		resp.StdErr = errString(json.Unmarshal([]byte(req.Doc), v))
		if resp.StdErr != "" {
			return
		}
		if m := reflect.ValueOf(v).MethodByName("Validate"); m.IsValid() {
			resp.HasValidate = true
			err := callErr(m)
			resp.ValidateErr = errString(err)
			flatten(err, &resp.Errors)
		}
	case "equals":
		a, b := e.New(), e.New()
		resp.StdErr = errString(json.Unmarshal([]byte(req.Doc), a))
		if resp.StdErr == "" {
			resp.StdErr = errString(json.Unmarshal([]byte(req.Doc2), b))
		}
		if resp.StdErr != "" {
			return
		}
		oa, _ := json.Marshal(a)
		ob, _ := json.Marshal(b)
		resp.Encoded, resp.Encoded2 = string(oa), string(ob)
		m := reflect.ValueOf(a).MethodByName("Equals")
		if m.IsValid() && m.Type().NumIn() == 1 {
			resp.HasEquals = true
			arg := reflect.ValueOf(b)
			if m.Type().In(0).Kind() != reflect.Ptr {
				arg = arg.Elem()
			}
			resp.Equal = m.Call([]reflect.Value{arg})[0].Bool()
			m2 := reflect.ValueOf(b).MethodByName("Equals")
			arg2 := reflect.ValueOf(a)
			if m2.Type().In(0).Kind() != reflect.Ptr {
				arg2 = arg2.Elem()
			}
			resp.EqualRev = m2.Call([]reflect.Value{arg2})[0].Bool()
		}
	case "default":
		if e.Ctor == nil {
			return
		}
		resp.HasCtor = true
		out, err := json.Marshal(e.Ctor())
		resp.Encoded, resp.EncodeErr = string(out), errString(err)
	}
	return
}

func main() {
	sc := bufio.NewScanner(os.Stdin)
	sc.Buffer(make([]byte, 1<<20), 64<<20)
	w := bufio.NewWriter(os.Stdout)
	defer w.Flush()
	enc := json.NewEncoder(w)
	for sc.Scan() {
		var req request
		if err := json.Unmarshal(sc.Bytes(), &req); err != nil {
			continue
		}
		_ = enc.Encode(handle(req))
	}
}
`
