package e2

import (
	"fmt"
	"os"
	"testing"

	"github.com/grafana/cog/verifharness/smodel"
	"pgregory.net/rapid"
)

func TestProbe(t *testing.T) {
	var m *smodel.Model
	f := smodel.Format(os.Getenv("PROBE_FORMAT"))
	rapid.Check(t, func(rt *rapid.T) { m = smodel.Draw(rt, smodel.DefaultGenConfig(f)) })
	src := smodel.Render(f, m)
	fmt.Println(src)
	dir := t.TempDir()
	p, err := NewPipeline(dir, "c00", []InputSpec{{Format: f, Package: m.Package, Source: src}}, OutputSpec{Types: true, Go: &GoFlags{JSON: true, Strict: true, Equal: true, Validate: true, PackageRoot: "verifgen/c00"}})
	if err != nil {
		t.Fatal(err)
	}
	files, err := Run(p)
	fmt.Println("ERR", err)
	for _, p := range files.Paths() {
		fmt.Println("=====", p, len(files[p]))
		if os.Getenv("PROBE_PRINT") != "" {
			fmt.Println(string(files[p]))
		}
	}
}
