// coggen is a development aid: it renders a smodel model (JSON, as stored in
// replay files) in one input format, runs cog's pipeline and prints the
// rendered schema and the generated files whose path matches a substring.
//
//	coggen -format cue -out go,python -model model.json -grep types
package main

import (
	"encoding/json"
	"flag"
	"fmt"
	"os"
	"strings"

	"github.com/grafana/cog/verifharness/e2"
	"github.com/grafana/cog/verifharness/smodel"
)

func main() {
	format := flag.String("format", "jsonschema", "jsonschema|openapi|cue")
	outs := flag.String("out", "go", "comma list: go,python,java,typescript,php,jsonschema,openapi")
	modelPath := flag.String("model", "", "model JSON file (or a replay file with .case.model / .case.models[0])")
	src := flag.String("source", "", "schema source file (instead of -model)")
	pkg := flag.String("package", "pk", "package (with -source)")
	grep := flag.String("grep", "", "only print files whose path contains this")
	flags := flag.String("flags", "json", "comma list: json,strict,equal,validate,builders,converters")
	flag.Parse()
	var source, splitMain, mainFile string
	var extra []e2.InputSpec
	f := smodel.Format(*format)
	if *src != "" {
		b, err := os.ReadFile(*src)
		if err != nil {
			panic(err)
		}
		source = string(b)
	} else {
		raw, err := os.ReadFile(*modelPath)
		if err != nil {
			panic(err)
		}
		var probe struct {
			Case struct {
				Model  *smodel.Model   `json:"model"`
				Models []*smodel.Model `json:"models"`
				Cases  []struct {
					Format   smodel.Format `json:"format"`
					Model    *smodel.Model `json:"model"`
					SplitPkg string        `json:"split_pkg"`
					Moved    []string      `json:"moved"`
					Schema   *struct {
						Format   smodel.Format `json:"format"`
						Model    *smodel.Model `json:"model"`
						SplitPkg string        `json:"split_pkg"`
						Moved    []string      `json:"moved"`
					} `json:"schema"`
				} `json:"cases"`
			} `json:"case"`
		}
		var m *smodel.Model
		if json.Unmarshal(raw, &probe) == nil && len(probe.Case.Cases) > 0 {
			c := probe.Case.Cases[0]
			if c.Schema != nil {
				c.Format, c.Model, c.SplitPkg, c.Moved = c.Schema.Format, c.Schema.Model, c.Schema.SplitPkg, c.Schema.Moved
			}
			m = c.Model
			f = c.Format
			if c.SplitPkg != "" {
				moved := map[string]bool{}
				for _, n := range c.Moved {
					moved[n] = true
				}
				a, b := smodel.RenderOpenAPISplit(m, c.SplitPkg, moved)
				extra = append(extra, e2.InputSpec{Format: smodel.OpenAPI, Package: c.SplitPkg, Source: b, FileName: c.SplitPkg + ".json"})
				splitMain = a
			}
		} else if json.Unmarshal(raw, &probe) == nil && (probe.Case.Model != nil || len(probe.Case.Models) > 0) {
			m = probe.Case.Model
			if m == nil {
				m = probe.Case.Models[0]
			}
		} else {
			m = &smodel.Model{}
			if err := json.Unmarshal(raw, m); err != nil {
				panic(err)
			}
		}
		*pkg = m.Package
		source = smodel.Render(f, m)
		if splitMain != "" {
			source = splitMain
			mainFile = m.Package + ".json"
		}
	}
	fmt.Println("==== schema")
	fmt.Println(source)
	has := func(list, s string) bool {
		for _, x := range strings.Split(list, ",") {
			if x == s {
				return true
			}
		}
		return false
	}
	o := e2.OutputSpec{Types: true, Builders: has(*flags, "builders"), Converters: has(*flags, "converters")}
	if has(*outs, "go") {
		o.Go = &e2.GoFlags{JSON: has(*flags, "json"), Strict: has(*flags, "strict"), Equal: has(*flags, "equal"), Validate: has(*flags, "validate"), PackageRoot: "verifgen/x"}
	}
	if has(*outs, "python") {
		o.Python = &e2.PyFlags{JSON: has(*flags, "json")}
	}
	if has(*outs, "java") {
		o.Java = &e2.JvFlags{JSON: has(*flags, "json")}
	}
	if has(*outs, "typescript") {
		o.Typescript = &e2.TsFlags{}
	}
	if has(*outs, "php") {
		o.PHP = &e2.PhFlags{JSON: has(*flags, "json")}
	}
	o.JSONSchema = has(*outs, "jsonschema")
	o.OpenAPI = has(*outs, "openapi")
	work, _ := os.MkdirTemp("", "coggen")
	defer os.RemoveAll(work)
	for _, x := range extra {
		fmt.Println("==== schema of package " + x.Package)
		fmt.Println(x.Source)
	}
	p, err := e2.NewPipeline(work, "x", append([]e2.InputSpec{{Format: f, Package: *pkg, Source: source, FileName: mainFile}}, extra...), o)
	if err != nil {
		fmt.Println("pipeline:", err)
		os.Exit(1)
	}
	files, err := e2.Run(p)
	if err != nil {
		fmt.Println("run:", err)
		os.Exit(1)
	}
	for _, path := range files.Paths() {
		if strings.Contains(path, "/cog/") || strings.HasSuffix(path, "runtime.go") {
			continue
		}
		if *grep != "" && !strings.Contains(path, *grep) {
			continue
		}
		fmt.Println("==== " + path)
		fmt.Println(string(files[path]))
	}
}
