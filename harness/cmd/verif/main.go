// Command verif is the driver registered in MANIFEST.json (through /verif/run).
//
//	verif <ID> <quick|thorough>            run the check, write evidence
//	verif <ID> --replay <file>             re-execute one saved case
//
// exit 0: property held on everything explored (known findings allowed)
// exit 1: unlisted violation (a line "VIOLATION property=<ID> replay=<path>")
// exit 2: inconclusive (harness/toolchain failure, timeout, dead generator)
package main

import (
	"bytes"
	"encoding/json"
	"fmt"
	"io"
	"os"
	"os/exec"
	"path/filepath"
	"regexp"
	"sort"
	"strconv"
	"strings"
	"sync"
	"time"

	"github.com/grafana/cog/verifharness/e2"
	"github.com/grafana/cog/verifharness/vlib"
)

type tierCfg struct {
	Checks     int           // -rapid.checks per shard
	Shards     int           // processes
	Timeout    time.Duration // -test.timeout per shard
	ShrinkTime time.Duration
	Steps      int // -rapid.steps (0 = default)
}

type propCfg struct {
	Level  string
	Quick  tierCfg
	Thor   tierCfg
	MinEff float64 // minimum fraction of requested checks that must have run
}

func d(s string) time.Duration { x, _ := time.ParseDuration(s); return x }

var props = map[string]propCfg{
	"C04": {Level: "exploration",
		Quick: tierCfg{Checks: 250, Shards: 8, Timeout: d("15m"), ShrinkTime: d("45s")},
		Thor:  tierCfg{Checks: 2500, Shards: 12, Timeout: d("90m"), ShrinkTime: d("180s")}},
	"C14": {Level: "translation_validation",
		Quick: tierCfg{Checks: 3, Shards: 4, Timeout: d("15m"), ShrinkTime: d("45s")},
		Thor:  tierCfg{Checks: 20, Shards: 12, Timeout: d("60m"), ShrinkTime: d("180s")}},
	"C09": {Level: "translation_validation",
		Quick: tierCfg{Checks: 4, Shards: 8, Timeout: d("15m"), ShrinkTime: d("45s")},
		Thor:  tierCfg{Checks: 30, Shards: 12, Timeout: d("60m"), ShrinkTime: d("180s")}},
	"C07": {Level: "exploration",
		Quick: tierCfg{Checks: 60, Shards: 8, Timeout: d("15m"), ShrinkTime: d("45s")},
		Thor:  tierCfg{Checks: 600, Shards: 12, Timeout: d("60m"), ShrinkTime: d("180s")}},
	"C03": {Level: "exploration",
		Quick: tierCfg{Checks: 12, Shards: 6, Timeout: d("15m"), ShrinkTime: d("45s")},
		Thor:  tierCfg{Checks: 150, Shards: 12, Timeout: d("60m"), ShrinkTime: d("180s")}},
	"C02": {Level: "translation_validation",
		Quick: tierCfg{Checks: 4, Shards: 6, Timeout: d("15m"), ShrinkTime: d("45s")},
		Thor:  tierCfg{Checks: 15, Shards: 12, Timeout: d("60m"), ShrinkTime: d("180s")}},
	"C12": {Level: "translation_validation",
		Quick: tierCfg{Checks: 3, Shards: 4, Timeout: d("15m"), ShrinkTime: d("45s")},
		Thor:  tierCfg{Checks: 30, Shards: 12, Timeout: d("60m"), ShrinkTime: d("180s")}},
	"C10": {Level: "translation_validation",
		Quick: tierCfg{Checks: 3, Shards: 4, Timeout: d("15m"), ShrinkTime: d("45s")},
		Thor:  tierCfg{Checks: 24, Shards: 12, Timeout: d("60m"), ShrinkTime: d("180s")}},
	"C11": {Level: "translation_validation",
		Quick: tierCfg{Checks: 3, Shards: 4, Timeout: d("15m"), ShrinkTime: d("45s")},
		Thor:  tierCfg{Checks: 30, Shards: 12, Timeout: d("60m"), ShrinkTime: d("180s")}},
	"C13": {Level: "exploration",
		Quick: tierCfg{Checks: 3, Shards: 4, Timeout: d("15m"), ShrinkTime: d("45s")},
		Thor:  tierCfg{Checks: 20, Shards: 12, Timeout: d("60m"), ShrinkTime: d("180s")}},
	"C08": {Level: "fault_enumeration",
		Quick: tierCfg{Checks: 3, Shards: 4, Timeout: d("15m"), ShrinkTime: d("45s")},
		Thor:  tierCfg{Checks: 12, Shards: 12, Timeout: d("60m"), ShrinkTime: d("180s")}},
	"C01": {Level: "translation_validation",
		Quick: tierCfg{Checks: 3, Shards: 4, Timeout: d("15m"), ShrinkTime: d("45s")},
		Thor:  tierCfg{Checks: 12, Shards: 12, Timeout: d("60m"), ShrinkTime: d("180s")}},
	"C17": {Level: "exploration",
		Quick: tierCfg{Checks: 1500, Shards: 4, Timeout: d("10m"), ShrinkTime: d("30s")},
		Thor:  tierCfg{Checks: 20000, Shards: 12, Timeout: d("40m"), ShrinkTime: d("120s")}},
	"C20": {Level: "fault_enumeration",
		Quick: tierCfg{Checks: 600, Shards: 2, Timeout: d("10m"), ShrinkTime: d("30s")},
		Thor:  tierCfg{Checks: 12000, Shards: 12, Timeout: d("40m"), ShrinkTime: d("120s")}},
	"C16": {Level: "model_checking",
		Quick: tierCfg{Checks: 3000, Shards: 4, Timeout: d("10m"), ShrinkTime: d("30s")},
		Thor:  tierCfg{Checks: 80000, Shards: 12, Timeout: d("40m"), ShrinkTime: d("120s")}},
	"C15": {Level: "model_checking",
		Quick: tierCfg{Checks: 2500, Shards: 4, Timeout: d("10m"), ShrinkTime: d("30s")},
		Thor:  tierCfg{Checks: 40000, Shards: 12, Timeout: d("40m"), ShrinkTime: d("120s")}},
	"C06": {Level: "exploration",
		Quick: tierCfg{Checks: 2500, Shards: 4, Timeout: d("10m"), ShrinkTime: d("30s")},
		Thor:  tierCfg{Checks: 40000, Shards: 12, Timeout: d("40m"), ShrinkTime: d("120s")}},
	"C05": {Level: "exploration",
		Quick: tierCfg{Checks: 3000, Shards: 4, Timeout: d("10m"), ShrinkTime: d("30s")},
		Thor:  tierCfg{Checks: 40000, Shards: 12, Timeout: d("40m"), ShrinkTime: d("120s")}},
	"C18": {Level: "exploration",
		Quick: tierCfg{Checks: 12000, Shards: 1, Timeout: d("5m"), ShrinkTime: d("30s")},
		Thor:  tierCfg{Checks: 100000, Shards: 12, Timeout: d("30m"), ShrinkTime: d("120s")}},
	"C19": {Level: "model_checking",
		Quick: tierCfg{Checks: 2000, Shards: 1, Timeout: d("5m"), ShrinkTime: d("30s"), Steps: 40},
		Thor:  tierCfg{Checks: 20000, Shards: 12, Timeout: d("30m"), ShrinkTime: d("120s"), Steps: 60}},
}

// trimScratchCache keeps the build cache of the scratch modules (e2.ScratchCache)
// bounded. Go's cache holds index entries (`<id>-a`) that point to outputs
// (`<id>-d`); an index entry whose output is gone makes builds fail, so the two
// are aged differently: an index entry goes when it has not been used for T, an
// output only after T + 70 min (Go refreshes the time of an entry it uses at
// most once an hour, so an output may look up to an hour older than the index
// entry that still names it). T is two hours; beyond 20 GiB, a quarter of an
// hour.
func trimScratchCache() {
	dir := e2.ScratchCache()
	type entry struct {
		path   string
		size   int64
		mod    time.Time
		output bool
	}
	var entries []entry
	var total int64
	_ = filepath.WalkDir(dir, func(path string, d os.DirEntry, err error) error {
		if err != nil || d.IsDir() {
			return nil
		}
		name := d.Name()
		if !strings.HasSuffix(name, "-a") && !strings.HasSuffix(name, "-d") {
			return nil
		}
		info, ierr := d.Info()
		if ierr != nil {
			return nil
		}
		entries = append(entries, entry{path, info.Size(), info.ModTime(), strings.HasSuffix(name, "-d")})
		total += info.Size()
		return nil
	})
	now := time.Now()
	drop := func(t time.Duration) {
		for i, e := range entries {
			limit := t
			if e.output {
				limit = t + 70*time.Minute
			}
			if e.path != "" && now.Sub(e.mod) > limit {
				if os.Remove(e.path) == nil {
					total -= e.size
					entries[i].path = ""
				}
			}
		}
	}
	drop(2 * time.Hour)
	if total > 20<<30 {
		drop(15 * time.Minute)
	}
}

func root() string {
	if r := os.Getenv("VERIF_ROOT"); r != "" {
		return r
	}
	return "/verif"
}

func main() {
	if len(os.Args) < 3 {
		fmt.Fprintln(os.Stderr, "usage: verif <ID> <quick|thorough> | verif <ID> --replay <file>")
		os.Exit(2)
	}
	id := os.Args[1]
	cfg, ok := props[id]
	if !ok {
		fmt.Fprintf(os.Stderr, "unknown property %s\n", id)
		os.Exit(2)
	}
	mode := os.Args[2]
	trimScratchCache()
	os.Exit(run(id, cfg, mode, os.Args[3:]))
}

func goEnv(extra ...string) []string {
	env := os.Environ()
	env = append(env, "GOFLAGS=-mod=mod", "GOPROXY=off", "GOSUMDB=off", "GOTOOLCHAIN=local", "GONOSUMDB=*", "GONOSUMCHECK=1")
	return append(env, extra...)
}

func scratchRoot() string {
	if s := os.Getenv("VERIF_SCRATCH"); s != "" {
		return s
	}
	for _, base := range []string{"/dev/shm", "/var/tmp"} {
		if st, err := os.Stat(base); err == nil && st.IsDir() {
			return filepath.Join(base, fmt.Sprintf("verif.%d", os.Getpid()))
		}
	}
	return filepath.Join(os.TempDir(), fmt.Sprintf("verif.%d", os.Getpid()))
}

func seedFromEnv() (int64, uint64) {
	s := int64(1)
	if v := os.Getenv("VERIF_SEED"); v != "" {
		if n, err := strconv.ParseInt(v, 10, 64); err == nil {
			s = n
		}
	}
	rs := uint64(s)
	if s < 0 {
		rs = uint64(-s) + 0x8000000
	}
	if rs == 0 {
		rs = 0x5eed // rapid treats 0 as "random"
	}
	return s, rs
}

func buildTestBinary(scratch string) (string, error) {
	bin := filepath.Join(scratch, "checks.test")
	cmd := exec.Command("go", "test", "-c", "-o", bin, "./checks")
	cmd.Dir = filepath.Join(root(), "harness")
	cmd.Env = goEnv()
	out, err := cmd.CombinedOutput()
	if err != nil {
		return "", fmt.Errorf("building the check binary failed: %v\n%s", err, out)
	}
	return bin, nil
}

type shardResult struct {
	idx    int
	stats  *vlib.Stats
	log    string
	err    error
	outDir string
	killed bool
}

func runShard(bin string, id string, tier string, t tierCfg, seed uint64, idx int, scratch string, replay string) shardResult {
	out := filepath.Join(scratch, fmt.Sprintf("shard%02d", idx))
	_ = os.MkdirAll(out, 0o755)
	work := filepath.Join(out, "work")
	_ = os.MkdirAll(work, 0o755)
	args := []string{
		"-test.run", "^Test" + id + "$",
		"-test.count", "1",
		"-test.v",
		"-test.timeout", t.Timeout.String(),
		"-rapid.checks", strconv.Itoa(t.Checks),
		"-rapid.seed", strconv.FormatUint(seed, 10),
		"-rapid.nofailfile",
		"-rapid.shrinktime", t.ShrinkTime.String(),
	}
	if t.Steps > 0 {
		args = append(args, "-rapid.steps", strconv.Itoa(t.Steps))
	}
	cmd := exec.Command(bin, args...)
	cmd.Dir = filepath.Join(root(), "harness", "checks")
	env := goEnv("VERIF_OUT="+out, "VERIF_TIER="+tier, "VERIF_WORK="+work,
		"VERIF_SHARD="+strconv.Itoa(idx), "VERIF_SHARDS="+strconv.Itoa(t.Shards), "VERIF_ROOT="+root(),
		"VERIF_FINDINGS="+filepath.Join(root(), "known_findings.json"),
		"VERIF_RAPID_SEED="+strconv.FormatUint(seed, 10),
		"VERIF_BIN="+bin)
	if replay != "" {
		env = append(env, "VERIF_REPLAY="+replay)
	} else {
		env = append(env, "VERIF_REPLAY=")
	}
	cmd.Env = env
	var buf bytes.Buffer
	cmd.Stdout = &buf
	cmd.Stderr = &buf
	err := cmd.Run()
	res := shardResult{idx: idx, log: buf.String(), err: err, outDir: out}
	raw, rerr := os.ReadFile(filepath.Join(out, "stats.json"))
	if rerr == nil {
		var st vlib.Stats
		if json.Unmarshal(raw, &st) == nil {
			res.stats = &st
		}
	}
	return res
}

func tail(s string, n int) string {
	lines := strings.Split(s, "\n")
	if len(lines) > n {
		lines = lines[len(lines)-n:]
	}
	return strings.Join(lines, "\n")
}

func copyFile(src, dst string) error {
	in, err := os.Open(src)
	if err != nil {
		return err
	}
	defer in.Close()
	_ = os.MkdirAll(filepath.Dir(dst), 0o755)
	out, err := os.Create(dst)
	if err != nil {
		return err
	}
	defer out.Close()
	_, err = io.Copy(out, in)
	return err
}

var reOK = regexp.MustCompile(`\[rapid\] OK, passed (\d+) tests`)

func run(id string, cfg propCfg, mode string, rest []string) int {
	start := time.Now()
	scratch := scratchRoot()
	_ = os.MkdirAll(scratch, 0o755)
	defer os.RemoveAll(scratch)

	bin, err := buildTestBinary(scratch)
	if err != nil {
		fmt.Println("INCONCLUSIVE:", err)
		return 2
	}
	_, _ = vlib.LoadFindings, bin

	if mode == "--replay" {
		if len(rest) < 1 {
			fmt.Fprintln(os.Stderr, "--replay needs a file")
			return 2
		}
		return replayOne(bin, id, cfg, rest[0], scratch, true)
	}
	tier := mode
	if tier != "quick" && tier != "thorough" {
		fmt.Fprintln(os.Stderr, "tier must be quick or thorough")
		return 2
	}
	t := cfg.Quick
	if tier == "thorough" {
		t = cfg.Thor
	}
	if v := os.Getenv("VERIF_CHECKS"); v != "" { // development aid
		if n, err := strconv.Atoi(v); err == nil {
			t.Checks = n
		}
	}
	if v := os.Getenv("VERIF_SHARDS"); v != "" {
		if n, err := strconv.Atoi(v); err == nil {
			t.Shards = n
		}
	}
	userSeed, rseed := seedFromEnv()

	findings, err := vlib.LoadFindings(filepath.Join(root(), "known_findings.json"), id)
	if err != nil {
		fmt.Println("INCONCLUSIVE: known_findings.json:", err)
		return 2
	}

	exit := 0
	violations := 0
	var violationLines []string

	// 1. witnesses of known findings: print KNOWN-FINDING for each that still fails.
	knownStillFailing := map[string]bool{}
	for _, f := range findings {
		if f.Witness == "" {
			continue
		}
		w := f.Witness
		if !filepath.IsAbs(w) {
			w = filepath.Join(root(), w)
		}
		vs, ok := replayViolations(bin, id, cfg, w, scratch)
		if !ok {
			fmt.Printf("INCONCLUSIVE: witness %s of %s could not be replayed\n", w, f.ID)
			exit = 2
			continue
		}
		re := regexp.MustCompile("^(?:" + f.Match + ")$")
		for _, v := range vs {
			if re.MatchString(v.Sig) {
				knownStillFailing[f.ID] = true
			}
		}
		if knownStillFailing[f.ID] {
			fmt.Printf("KNOWN-FINDING: property=%s %s: %s (witness %s)\n", id, f.ID, f.Summary, f.Witness)
		}
	}

	// 2. regression replays (fixed defects and earlier violations): must pass.
	regDir := filepath.Join(root(), "replays", "regression", id)
	regs, _ := filepath.Glob(filepath.Join(regDir, "*.json"))
	sort.Strings(regs)
	regRun := 0
	for _, rg := range regs {
		vs, ok := replayViolations(bin, id, cfg, rg, scratch)
		if !ok {
			fmt.Printf("INCONCLUSIVE: regression replay %s could not be executed\n", rg)
			exit = 2
			continue
		}
		regRun++
		var unlisted []vlib.Violation
		for _, v := range vs {
			if !matchesAny(findings, v.Sig) {
				unlisted = append(unlisted, v)
			}
		}
		if len(unlisted) > 0 {
			violations++
			violationLines = append(violationLines, fmt.Sprintf("VIOLATION property=%s replay=%s", id, rg))
			for _, v := range unlisted {
				fmt.Printf("  regression [%s] %s\n", v.Sig, v.Msg)
			}
		}
	}

	// 3. generated search, sharded.
	results := make([]shardResult, t.Shards)
	var wg sync.WaitGroup
	for i := 0; i < t.Shards; i++ {
		wg.Add(1)
		go func(i int) {
			defer wg.Done()
			seed := rseed
			if t.Shards > 1 {
				seed = rseed*1000 + uint64(i) + 1
			}
			results[i] = runShard(bin, id, tier, t, seed, i, scratch, "")
		}(i)
	}
	wg.Wait()

	merged := vlib.Stats{Property: id, Labels: map[string]int{}, Counters: map[string]int{}, Known: map[string]int{}, KnownExample: map[string]string{}}
	nontriv := map[uint64]struct{}{}

	// 3b. native (coverage-guided, byte-level) fuzz campaigns: thorough tier of
	// C04 only. They cannot be pinned to VERIF_SEED; the saved input is the
	// reproducible unit. VERIF_NOFUZZ=1 skips them.
	if id == "C04" && tier == "thorough" && os.Getenv("VERIF_NOFUZZ") == "" {
		for _, target := range []string{"FuzzC04JSONSchema", "FuzzC04OpenAPI", "FuzzC04CUE"} {
			execs, crashers, note := runNativeFuzz(target, "60s", scratch)
			merged.Counters["native_fuzz_execs:"+target] += execs
			if note != "" {
				merged.Notes = append(merged.Notes, note)
			}
			for _, c := range crashers {
				// the saved input is judged by the same worker as every other
				// case: a listed signature (e.g. a fatal stack overflow the
				// target itself cannot swallow) is counted, not reported
				if vs, ok := replayViolations(bin, id, cfg, c, scratch); ok {
					unlisted := 0
					for _, v := range vs {
						if !matchesAny(findings, v.Sig) {
							unlisted++
						}
					}
					if unlisted == 0 {
						merged.Counters["native_fuzz_crashers_with_listed_signature:"+target]++
						continue
					}
				}
				dst := filepath.Join(root(), "replays", id, filepath.Base(c))
				if err := copyFile(c, dst); err != nil {
					dst = c
				}
				violations++
				violationLines = append(violationLines, fmt.Sprintf("VIOLATION property=%s replay=%s", id, dst))
			}
		}
	}
	passedTotal := 0
	for _, r := range results {
		if r.stats == nil {
			detail := tail(r.log, 40)
			if i := strings.Index(r.log, "panic: test timed out"); i >= 0 {
				// a hang: show where the running goroutines are (frames of cog / the harness)
				var frames []string
				for _, l := range strings.Split(r.log[i:], "\n") {
					if strings.HasPrefix(l, "panic:") || strings.HasPrefix(l, "goroutine ") || strings.Contains(l, "grafana/cog") {
						frames = append(frames, l)
					}
					if len(frames) > 60 {
						break
					}
				}
				detail = strings.Join(frames, "\n")
			}
			fmt.Printf("INCONCLUSIVE: shard %d produced no stats (err=%v)\n%s\n", r.idx, r.err, detail)
			exit = 2
			continue
		}
		st := r.stats
		merged.Evaluations += st.Evaluations
		for _, k := range st.NontrivialSet {
			nontriv[k] = struct{}{}
		}
		for k, v := range st.Labels {
			merged.Labels[k] += v
		}
		for k, v := range st.Counters {
			merged.Counters[k] += v
		}
		for k, v := range st.Known {
			merged.Known[k] += v
		}
		for k, v := range st.KnownExample {
			if _, ok := merged.KnownExample[k]; !ok {
				merged.KnownExample[k] = v
			}
		}
		if len(merged.Samples) < 5 {
			for _, s := range st.Samples {
				if len(merged.Samples) < 5 {
					merged.Samples = append(merged.Samples, s)
				}
			}
		}
		merged.Notes = append(merged.Notes, st.Notes...)
		if st.Exhaustive {
			merged.Exhaustive = true
		}
		if st.States > merged.States {
			merged.States = st.States
		}
		merged.Transitions += st.Transitions
		if st.Rule != "" {
			merged.Rule = st.Rule
			merged.Assumptions = st.Assumptions
		}
		if st.Extra != nil {
			merged.Extra = st.Extra
		}
		for _, m := range reOK.FindAllStringSubmatch(r.log, -1) {
			n, _ := strconv.Atoi(m[1])
			passedTotal += n
		}
		if len(st.Violations) > 0 {
			seen := map[string]bool{}
			for _, v := range st.Violations {
				if seen[v.Replay] {
					continue
				}
				seen[v.Replay] = true
				dst := filepath.Join(root(), "replays", id, filepath.Base(v.Replay))
				if err := copyFile(v.Replay, dst); err != nil {
					dst = v.Replay
				}
				violations++
				violationLines = append(violationLines, fmt.Sprintf("VIOLATION property=%s replay=%s", id, dst))
			}
			for _, v := range st.Violations {
				fmt.Printf("  [%s] %s\n", v.Sig, firstLines(v.Msg, 12))
			}
		} else if st.Inconclusive != "" {
			fmt.Printf("INCONCLUSIVE: shard %d: %s\n%s\n", r.idx, st.Inconclusive, tail(r.log, 40))
			exit = 2
		} else if r.err != nil {
			fmt.Printf("INCONCLUSIVE: shard %d exited with %v without a judged violation\n%s\n", r.idx, r.err, tail(r.log, 40))
			exit = 2
		}
	}
	if len(merged.Notes) > 20 {
		merged.Notes = merged.Notes[:20]
	}

	// known findings hit by the generated search but without a witness line yet
	for _, f := range findings {
		if merged.Known[f.ID] > 0 && !knownStillFailing[f.ID] {
			fmt.Printf("KNOWN-FINDING: property=%s %s: %s (hit %d times by the generated search, e.g. %s)\n", id, f.ID, f.Summary, merged.Known[f.ID], firstLines(merged.KnownExample[f.ID], 2))
			knownStillFailing[f.ID] = true
		}
	}

	if os.Getenv("VERIF_COLLECT") != "" {
		keys := make([]string, 0)
		for k := range merged.KnownExample {
			if strings.HasPrefix(k, "unlisted:") {
				keys = append(keys, k)
			}
		}
		sort.Strings(keys)
		for _, k := range keys {
			fmt.Printf("COLLECT %5d %s\n        %s\n", merged.Counters[k], k, firstLines(merged.KnownExample[k], 3))
		}
	}

	excluded := 0
	for _, v := range merged.Known {
		excluded += v
	}
	excluded += merged.Counters["excluded_known"]

	cov := map[string]any{
		"evaluations":            merged.Evaluations,
		"distinct_nontrivial":    len(nontriv),
		"rule":                   merged.Rule,
		"samples":                merged.Samples,
		"labels":                 merged.Labels,
		"counters":               merged.Counters,
		"excluded_known":         excluded,
		"known_findings_hit":     merged.Known,
		"regression_replays":     regRun,
		"shards":                 t.Shards,
		"rapid_checks_per_shard": t.Checks,
		"rapid_cases_passed":     passedTotal,
		"notes":                  merged.Notes,
	}
	if merged.Exhaustive {
		cov["exhaustive"] = true
	}
	if merged.States > 0 {
		cov["states"] = merged.States
		cov["transitions"] = merged.Transitions
		cov["traces_validated_against_impl"] = merged.Transitions
	}
	for k, v := range merged.Extra {
		cov[k] = v
	}
	if cfg.Level == "translation_validation" {
		cov["programs"] = merged.Counters["programs"]
		cov["disagreements_checked"] = merged.Counters["disagreements_checked"]
	}
	if merged.Samples == nil {
		cov["samples"] = []any{}
	}
	ev := map[string]any{
		"property_id": id,
		"tier":        tier,
		"seed":        userSeed,
		"level":       cfg.Level,
		"coverage":    cov,
		"assumptions": merged.Assumptions,
		"wall_s":      time.Since(start).Seconds(),
		"violations":  violations,
	}
	if merged.Assumptions == nil {
		ev["assumptions"] = []string{}
	}
	raw, _ := json.MarshalIndent(ev, "", " ")
	evPath := filepath.Join(root(), "evidence", id+".json")
	_ = os.MkdirAll(filepath.Dir(evPath), 0o755)
	if err := os.WriteFile(evPath, append(raw, '\n'), 0o644); err != nil {
		fmt.Println("INCONCLUSIVE: cannot write evidence:", err)
		return 2
	}

	for _, l := range violationLines {
		fmt.Println(l)
	}
	fmt.Printf("%s %s: evaluations=%d distinct_nontrivial=%d known_hits=%d violations=%d wall=%.1fs\n",
		id, tier, merged.Evaluations, len(nontriv), excluded, violations, time.Since(start).Seconds())
	if violations > 0 {
		return 1
	}
	if exit == 0 && merged.Evaluations == 0 {
		fmt.Println("INCONCLUSIVE: no case was evaluated")
		return 2
	}
	return exit
}

var reFuzzExecs = regexp.MustCompile(`execs: ([0-9]+)`)

// runNativeFuzz runs one `go test -fuzz` campaign on the checks package. A
// failing target writes a replay file (C04 case format) into outDir itself; a
// worker that dies without doing so (fatal error) leaves Go's own crasher file,
// which is converted.
func runNativeFuzz(target string, fuzztime string, scratch string) (execs int, crashers []string, note string) {
	outDir := filepath.Join(scratch, "fuzz_"+target)
	_ = os.MkdirAll(outDir, 0o755)
	pkgDir := filepath.Join(root(), "harness", "checks")
	corpus := filepath.Join(pkgDir, "testdata", "fuzz", target)
	_ = os.RemoveAll(corpus)
	cmd := exec.Command("go", "test", ".", "-run", "^$", "-fuzz", "^"+target+"$", "-fuzztime", fuzztime, "-test.fuzzcachedir", filepath.Join(scratch, "fuzzcache"))
	cmd.Dir = pkgDir
	cmd.Env = goEnv("VERIF_FUZZ_OUT="+outDir, "VERIF_FINDINGS="+filepath.Join(root(), "known_findings.json"))
	out, err := cmd.CombinedOutput()
	if m := reFuzzExecs.FindAllStringSubmatch(string(out), -1); len(m) > 0 {
		execs, _ = strconv.Atoi(m[len(m)-1][1])
	}
	written, _ := filepath.Glob(filepath.Join(outDir, "fuzz_*.json"))
	crashers = append(crashers, written...)
	if err != nil && len(written) == 0 {
		// no replay written: the worker died (fatal error / hang); convert Go's crasher files
		files, _ := filepath.Glob(filepath.Join(corpus, "*"))
		for _, f := range files {
			raw, rerr := os.ReadFile(f)
			if rerr != nil {
				continue
			}
			format := map[string]string{"FuzzC04JSONSchema": "jsonschema", "FuzzC04OpenAPI": "openapi", "FuzzC04CUE": "cue"}[target]
			replay := map[string]any{"property": "C04", "go_fuzz_corpus_file": string(raw), "case": map[string]any{
				"inputs":    []map[string]any{{"format": format, "package": "pk", "source": decodeGoFuzzBytes(string(raw))}},
				"config":    map[string]any{"types": true, "builders": true, "go": map[string]any{"JSON": true, "Validate": true}, "python": map[string]any{}, "java": map[string]any{}, "typescript": map[string]any{}, "php": map[string]any{}},
				"languages": []string{"go", "jsonschema"},
			}}
			enc, _ := json.MarshalIndent(replay, "", " ")
			dst := filepath.Join(outDir, "fuzz_crasher_"+filepath.Base(f)+".json")
			if os.WriteFile(dst, enc, 0o644) == nil {
				crashers = append(crashers, dst)
			}
		}
		if len(crashers) == 0 {
			note = fmt.Sprintf("native fuzz campaign %s failed without a crasher: %s", target, tail(string(out), 12))
		}
	}
	_ = os.RemoveAll(filepath.Join(pkgDir, "testdata", "fuzz"))
	return execs, crashers, note
}

// decodeGoFuzzBytes extracts the []byte("...") literal of a Go fuzz corpus file.
func decodeGoFuzzBytes(file string) string {
	i := strings.Index(file, "[]byte(")
	if i < 0 {
		return file
	}
	lit := strings.TrimSpace(file[i+len("[]byte("):])
	lit = strings.TrimSuffix(strings.TrimSpace(lit), ")")
	if s, err := strconv.Unquote(lit); err == nil {
		return s
	}
	return lit
}

func firstLines(s string, n int) string {
	lines := strings.Split(s, "\n")
	if len(lines) > n {
		lines = append(lines[:n], "…")
	}
	return strings.Join(lines, "\n")
}

func matchesAny(fs []vlib.Finding, sig string) bool {
	for _, f := range fs {
		if regexp.MustCompile("^(?:" + f.Match + ")$").MatchString(sig) {
			return true
		}
	}
	return false
}

func replayViolations(bin string, id string, cfg propCfg, file string, scratch string) ([]vlib.Violation, bool) {
	t := cfg.Quick
	t.Checks = 1
	dir, _ := os.MkdirTemp(scratch, "replay")
	res := runShard(bin, id, "quick", t, 1, 0, dir, file)
	raw, err := os.ReadFile(filepath.Join(res.outDir, "replay_result.json"))
	if err != nil {
		fmt.Println(tail(res.log, 30))
		return nil, false
	}
	var rr struct {
		Violations []vlib.Violation `json:"violations"`
	}
	if err := json.Unmarshal(raw, &rr); err != nil {
		return nil, false
	}
	return rr.Violations, true
}

func replayOne(bin string, id string, cfg propCfg, file string, scratch string, verbose bool) int {
	vs, ok := replayViolations(bin, id, cfg, file, scratch)
	if !ok {
		fmt.Println("INCONCLUSIVE: replay could not be executed")
		return 2
	}
	findings, _ := vlib.LoadFindings(filepath.Join(root(), "known_findings.json"), id)
	unlisted := 0
	for _, v := range vs {
		known := matchesAny(findings, v.Sig)
		tag := "violation"
		if known {
			tag = "known-finding"
		} else {
			unlisted++
		}
		fmt.Printf("%s [%s] %s\n", tag, v.Sig, v.Msg)
	}
	if unlisted > 0 {
		fmt.Printf("VIOLATION property=%s replay=%s\n", id, file)
		return 1
	}
	fmt.Printf("%s replay: no unlisted violation\n", id)
	return 0
}
