// Package irfill populates cog IR values reflectively from a "tape" of small
// integers. Every field of every struct is populated (so a field that is added
// to an IR struct later is populated too), except that an ast.Type only gets
// the member that matches its Kind (the shape cog's constructors produce).
//
// The tape is drawn by rapid, so cases shrink and replay; when the tape runs
// out it is read again from the start with an offset (an empty tape yields the
// smallest value of each type).
package irfill

import (
	"reflect"

	"github.com/grafana/cog/internal/ast"
	"github.com/grafana/cog/internal/orderedmap"
)

type Tape struct {
	data []uint32
	pos  int
	// Used counts how many draws were served from the tape.
	Used int
}

func NewTape(data []uint32) *Tape { return &Tape{data: data} }

// N returns a number in [0,n).
func (t *Tape) N(n int) int {
	if n <= 1 {
		return 0
	}
	if len(t.data) == 0 {
		return 0
	}
	// the tape is cyclic; each further lap is offset so that choices do not
	// simply repeat with the tape's period
	lap := uint32(t.pos / len(t.data))
	v := t.data[t.pos%len(t.data)] + lap*7919
	t.pos++
	t.Used++
	return int(v % uint32(n))
}

var words = []string{"", "a", "foo", "Bar", "some_name", "pkg", "other", "Ünï", "x-y", "0", "type"}

// anyPolicy says what an `any`-typed field may hold.
type anyPolicy int

const (
	anyScalar anyPolicy = iota // nil | bool | int64 | float64 | string
	anyJSON                    // additionally []any and map[string]any, nested
	anyHint                    // scalar | string | ast.Type value
)

// policies for `any` fields, by "Struct.Field". Fields that are not listed get
// scalars only: cog stores only scalars there (constants, enum values,
// constraint arguments, map/array indices).
var anyPolicies = map[string]anyPolicy{
	"Type.Default":             anyJSON,
	"OptionDefault.ArgsValues": anyJSON,
	"TypedConstant.Value":      anyJSON,
	"JenniesHints":             anyHint,
}

type Filler struct {
	T        *Tape
	MaxDepth int
}

var (
	typeOfType       = reflect.TypeOf(ast.Type{})
	typeOfObjectsMap = reflect.TypeOf((*orderedmap.Map[string, ast.Object])(nil))
	typeOfAny        = reflect.TypeOf((*any)(nil)).Elem()
)

// Fill populates the addressable value v.
func (f *Filler) Fill(v reflect.Value, depth int, ctx string) {
	switch v.Type() {
	case typeOfType:
		f.fillType(v, depth)
		return
	case typeOfObjectsMap:
		m := orderedmap.New[string, ast.Object]()
		n := f.T.N(4)
		for i := 0; i < n; i++ {
			var o ast.Object
			f.Fill(reflect.ValueOf(&o).Elem(), depth+1, "Object")
			if o.Name == "" {
				o.Name = "obj"
			}
			m.Set(o.Name, o)
		}
		v.Set(reflect.ValueOf(m))
		return
	}
	switch v.Kind() {
	case reflect.Bool:
		v.SetBool(f.T.N(2) == 1)
	case reflect.Int, reflect.Int8, reflect.Int16, reflect.Int32, reflect.Int64:
		v.SetInt(int64(f.T.N(7)) - 2)
	case reflect.Uint, reflect.Uint8, reflect.Uint16, reflect.Uint32, reflect.Uint64:
		v.SetUint(uint64(f.T.N(5)))
	case reflect.Float32, reflect.Float64:
		v.SetFloat([]float64{0, 1.5, -2.25, 42}[f.T.N(4)])
	case reflect.String:
		v.SetString(f.str(v.Type()))
	case reflect.Ptr:
		if depth >= f.MaxDepth || f.T.N(4) == 0 {
			return // nil
		}
		nv := reflect.New(v.Type().Elem())
		f.Fill(nv.Elem(), depth+1, ctx)
		v.Set(nv)
	case reflect.Slice:
		n := f.T.N(4)
		if depth >= f.MaxDepth {
			n = 0
		}
		if n == 0 {
			if f.T.N(2) == 1 {
				v.Set(reflect.MakeSlice(v.Type(), 0, 0))
			}
			return
		}
		s := reflect.MakeSlice(v.Type(), n, n+f.T.N(2)) // sometimes spare capacity
		for i := 0; i < n; i++ {
			f.Fill(s.Index(i), depth+1, ctx)
		}
		v.Set(s)
	case reflect.Map:
		n := f.T.N(3)
		if depth >= f.MaxDepth {
			n = 0
		}
		if n == 0 && f.T.N(2) == 0 {
			return
		}
		m := reflect.MakeMap(v.Type())
		mctx := ctx
		if v.Type().Name() != "" {
			mctx = v.Type().Name()
		}
		for i := 0; i < n; i++ {
			k := reflect.New(v.Type().Key()).Elem()
			k.SetString([]string{"k1", "k2", "key"}[i%3])
			e := reflect.New(v.Type().Elem()).Elem()
			f.Fill(e, depth+1, mctx)
			m.SetMapIndex(k, e)
		}
		v.Set(m)
	case reflect.Interface:
		if v.Type() == typeOfAny {
			val := f.anyValue(depth, anyPolicies[ctx])
			if val != nil {
				v.Set(reflect.ValueOf(val))
			}
		}
	case reflect.Struct:
		for i := 0; i < v.NumField(); i++ {
			fld := v.Field(i)
			if !fld.CanSet() {
				continue
			}
			f.Fill(fld, depth+1, v.Type().Name()+"."+v.Type().Field(i).Name)
		}
	}
}

func (f *Filler) str(t reflect.Type) string {
	switch t.Name() {
	case "Kind", "ScalarKind":
		return "" // set by fillType
	case "Op":
		ops := []ast.Op{ast.MinLengthOp, ast.MaxLengthOp, ast.MultipleOfOp, ast.EqualOp, ast.NotEqualOp, ast.LessThanOp, ast.LessThanEqualOp, ast.GreaterThanOp, ast.GreaterThanEqualOp}
		return string(ops[f.T.N(len(ops))])
	case "AssignmentMethod":
		return string([]ast.AssignmentMethod{ast.DirectAssignment, ast.AppendAssignment, ast.IndexAssignment}[f.T.N(3)])
	case "SchemaKind":
		return string([]ast.SchemaKind{"", ast.SchemaKindCore, ast.SchemaKindComposable}[f.T.N(3)])
	case "SchemaVariant":
		return string([]ast.SchemaVariant{"", ast.SchemaVariantPanel, ast.SchemaVariantDataQuery}[f.T.N(3)])
	}
	return words[f.T.N(len(words))]
}

func (f *Filler) scalarAny() any {
	switch f.T.N(6) {
	case 0:
		return nil
	case 1:
		return f.T.N(2) == 1
	case 2:
		return int64(f.T.N(100)) - 50
	case 3:
		return []float64{0.5, -1.25, 3, 1e10}[f.T.N(4)]
	default:
		return words[f.T.N(len(words))]
	}
}

func (f *Filler) anyValue(depth int, pol anyPolicy) any {
	switch pol {
	case anyScalar:
		return f.scalarAny()
	case anyHint:
		if f.T.N(3) == 0 && depth < f.MaxDepth {
			var t ast.Type
			f.fillType(reflect.ValueOf(&t).Elem(), depth+1)
			return t
		}
		return f.scalarAny()
	}
	// anyJSON
	if depth >= f.MaxDepth+2 {
		return f.scalarAny()
	}
	switch f.T.N(5) {
	case 0:
		n := f.T.N(4)
		out := make([]any, 0, n)
		for i := 0; i < n; i++ {
			out = append(out, f.anyValue(depth+1, anyJSON))
		}
		return out
	case 1:
		n := f.T.N(3)
		out := map[string]any{}
		for i := 0; i < n; i++ {
			out[[]string{"k1", "k2", "key"}[i]] = f.anyValue(depth+1, anyJSON)
		}
		return out
	}
	return f.scalarAny()
}

var kinds = []ast.Kind{ast.KindScalar, ast.KindRef, ast.KindStruct, ast.KindArray, ast.KindMap, ast.KindEnum, ast.KindDisjunction, ast.KindIntersection, ast.KindConstantRef, ast.KindComposableSlot}
var scalarKinds = []ast.ScalarKind{ast.KindString, ast.KindBool, ast.KindInt64, ast.KindFloat64, ast.KindAny, ast.KindNull, ast.KindBytes, ast.KindUint8, ast.KindInt32, ast.KindFloat32, ast.KindUint64, ast.KindInt8, ast.KindInt16, ast.KindUint16, ast.KindUint32}

// fillType builds an ast.Type in the shape cog's constructors produce: Kind
// plus the single matching member; Nullable, Default, Hints, PassesTrail and
// any other (future) non-member field are populated generically.
func (f *Filler) fillType(v reflect.Value, depth int) {
	kind := kinds[f.T.N(len(kinds))]
	if depth >= f.MaxDepth {
		kind = []ast.Kind{ast.KindScalar, ast.KindRef}[f.T.N(2)]
	}
	member := map[ast.Kind]string{
		ast.KindScalar: "Scalar", ast.KindRef: "Ref", ast.KindStruct: "Struct", ast.KindArray: "Array",
		ast.KindMap: "Map", ast.KindEnum: "Enum", ast.KindDisjunction: "Disjunction",
		ast.KindIntersection: "Intersection", ast.KindConstantRef: "ConstantReference", ast.KindComposableSlot: "ComposableSlot",
	}
	members := map[string]bool{}
	for _, m := range member {
		members[m] = true
	}
	for i := 0; i < v.NumField(); i++ {
		name := v.Type().Field(i).Name
		fld := v.Field(i)
		switch {
		case name == "Kind":
			fld.SetString(string(kind))
		case members[name]:
			if name != member[kind] {
				continue
			}
			nv := reflect.New(fld.Type().Elem())
			f.Fill(nv.Elem(), depth+1, name)
			if name == "Scalar" {
				nv.Elem().FieldByName("ScalarKind").SetString(string(scalarKinds[f.T.N(len(scalarKinds))]))
			}
			fld.Set(nv)
		case name == "Hints":
			f.Fill(fld, depth+1, "JenniesHints")
		default:
			f.Fill(fld, depth+1, "Type."+name)
		}
	}
}
