package passgen

import (
	"fmt"
	"sort"
	"strings"

	"github.com/grafana/cog/verifharness/irgen"
	"pgregory.net/rapid"
)

// AllKinds lists the user-facing transformations of property C15.
var AllKinds = []string{
	"rename_object", "omit", "omit_fields", "add_fields", "add_object", "duplicate_object",
	"retype_object", "retype_field", "fields_set_required", "fields_set_not_required",
	"fields_set_default", "replace_reference", "constant_to_enum", "trim_enum_values",
	"hint_object", "schema_set_identifier", "schema_set_entry_point", "prefix_object_names",
	"append_comment_objects",
}

func simpleType(t *rapid.T, ir irgen.IRSpec) *irgen.TypeSpec {
	switch rapid.IntRange(0, 4).Draw(t, "simpletype") {
	case 0:
		return &irgen.TypeSpec{Kind: "scalar", Scalar: "string"}
	case 1:
		return &irgen.TypeSpec{Kind: "scalar", Scalar: "int64", Default: irgen.VI(3)}
	case 2:
		p := ir[rapid.IntRange(0, len(ir)-1).Draw(t, "stpkg")]
		o := p.Objects[rapid.IntRange(0, len(p.Objects)-1).Draw(t, "stobj")]
		return &irgen.TypeSpec{Kind: "ref", Pkg: p.Package, Name: o.Name}
	case 3:
		return &irgen.TypeSpec{Kind: "array", Elem: &irgen.TypeSpec{Kind: "scalar", Scalar: "bool"}}
	default:
		return &irgen.TypeSpec{Kind: "struct", Fields: []irgen.FieldSpec{{Name: "inner", Type: irgen.TypeSpec{Kind: "scalar", Scalar: "float64"}, Required: true}}}
	}
}

func fieldRefs(t *rapid.T, ir irgen.IRSpec, label string) []string {
	n := rapid.IntRange(1, 3).Draw(t, label+"n")
	var out []string
	seen := map[string]bool{}
	for i := 0; i < n; i++ {
		pkg, obj, field, _ := DrawFieldTarget(t, ir)
		ref := fmt.Sprintf("%s.%s.%s", pkg, obj, field)
		// never two spellings of the same field in one transformation (their
		// relative order would be up to map iteration: C03's matter)
		if seen[strings.ToLower(ref)] {
			continue
		}
		seen[strings.ToLower(ref)] = true
		out = append(out, ref)
	}
	return out
}

// DrawAny draws one of the 19 transformations relative to the IR.
func DrawAny(t *rapid.T, ir irgen.IRSpec, kind string) PassSpec {
	if kind == "" {
		kind = rapid.SampledFrom(AllKinds).Draw(t, "anykind")
	}
	switch kind {
	case "rename_object", "duplicate_object", "replace_reference", "prefix_object_names":
		for {
			ps := DrawNameChanging(t, ir)
			if ps.Kind == kind {
				return ps
			}
			// redraw deterministically with the requested kind
			switch kind {
			case "rename_object":
				pkg, obj, class := DrawObjectTarget(t, ir, nil)
				return PassSpec{Kind: kind, Pkg: pkg, Obj: obj, TargetClass: class, To: freshName(t, ir)}
			case "prefix_object_names":
				return PassSpec{Kind: kind, Prefix: rapid.SampledFrom([]string{"Pre", "x_", "V2"}).Draw(t, "prefix")}
			case "duplicate_object":
				pkg, obj, class := DrawObjectTarget(t, ir, nil)
				toPkg := ir[rapid.IntRange(0, len(ir)-1).Draw(t, "topkg")].Package
				p := PassSpec{Kind: kind, Pkg: pkg, Obj: obj, TargetClass: class, ToPkg: toPkg, To: freshName(t, ir)}
				if rapid.IntRange(0, 2).Draw(t, "omitfields") == 0 {
					_, _, f, _ := DrawFieldTarget(t, ir)
					p.OmitFields = []string{f}
				}
				return p
			default:
				pkg, obj, class := DrawObjectTarget(t, ir, nil)
				toP := ir[rapid.IntRange(0, len(ir)-1).Draw(t, "rrtopkg")]
				toO := toP.Objects[rapid.IntRange(0, len(toP.Objects)-1).Draw(t, "rrtoobj")]
				return PassSpec{Kind: kind, Pkg: pkg, Obj: obj, TargetClass: class, ToPkg: toP.Package, To: toO.Name}
			}
		}
	case "omit":
		n := rapid.IntRange(1, 2).Draw(t, "nomit")
		ps := PassSpec{Kind: kind}
		for i := 0; i < n; i++ {
			pkg, obj, class := DrawObjectTarget(t, ir, nil)
			ps.Objects = append(ps.Objects, pkg+"."+obj)
			ps.TargetClass = class
		}
		return ps
	case "omit_fields", "fields_set_required", "fields_set_not_required":
		ps := PassSpec{Kind: kind, Fields: fieldRefs(t, ir, kind)}
		_, _, _, ps.TargetClass = "", "", "", "mixed"
		return ps
	case "fields_set_default":
		ps := PassSpec{Kind: kind, TargetClass: "mixed"}
		for _, ref := range fieldRefs(t, ir, kind) {
			var v irgen.Val
			switch rapid.IntRange(0, 3).Draw(t, "defval") {
			case 0:
				v = *irgen.VS("dflt")
			case 1:
				v = *irgen.VI(7)
			case 2:
				v = *irgen.VB(true)
			default:
				v = *irgen.VL(*irgen.VS("x"))
			}
			ps.Defaults = append(ps.Defaults, DefaultSpec{Ref: ref, Value: v})
		}
		sort.Slice(ps.Defaults, func(i, j int) bool { return ps.Defaults[i].Ref < ps.Defaults[j].Ref })
		return ps
	case "add_fields":
		pkg, obj, class := DrawObjectTarget(t, ir, func(_ irgen.PkgSpec, o irgen.ObjSpec) bool {
			return o.Type.Kind == "struct" || rapid.IntRange(0, 5).Draw(t, "nonstruct") == 0
		})
		ps := PassSpec{Kind: kind, Pkg: pkg, Obj: obj, TargetClass: class}
		n := rapid.IntRange(1, 2).Draw(t, "nnewfields")
		for i := 0; i < n; i++ {
			name := rapid.SampledFrom([]string{"added", "extra", "title", "id", "Title"}).Draw(t, "newfieldname")
			dup := false
			for _, f := range ps.NewFields {
				if strings.EqualFold(f.Name, name) {
					dup = true
				}
			}
			if dup {
				continue
			}
			ps.NewFields = append(ps.NewFields, irgen.FieldSpec{Name: name, Type: *simpleType(t, ir), Required: rapid.Bool().Draw(t, "newreq")})
		}
		return ps
	case "add_object":
		pkg := ir[rapid.IntRange(0, len(ir)-1).Draw(t, "aopkg")].Package
		if rapid.IntRange(0, 7).Draw(t, "aoabsent") == 0 {
			pkg = "nosuchpkg"
		}
		name := freshName(t, ir)
		if rapid.IntRange(0, 7).Draw(t, "aoexisting") == 0 {
			_, name, _ = DrawObjectTarget(t, ir, nil)
		}
		ps := PassSpec{Kind: kind, Pkg: pkg, Obj: name, Type: simpleType(t, ir), TargetClass: "new"}
		if rapid.Bool().Draw(t, "aocomments") {
			ps.Comments = []string{"added object"}
		}
		return ps
	case "retype_object":
		pkg, obj, class := DrawObjectTarget(t, ir, nil)
		ps := PassSpec{Kind: kind, Pkg: pkg, Obj: obj, TargetClass: class, Type: simpleType(t, ir)}
		if rapid.Bool().Draw(t, "rtcomments") {
			ps.Comments = []string{"retyped"}
		}
		return ps
	case "retype_field":
		pkg, obj, field, class := DrawFieldTarget(t, ir)
		ps := PassSpec{Kind: kind, Pkg: pkg, Obj: obj, Field: field, TargetClass: class, Type: simpleType(t, ir)}
		if rapid.Bool().Draw(t, "rfcomments") {
			ps.Comments = []string{"retyped field"}
		}
		return ps
	case "constant_to_enum":
		pkg, obj, class := DrawObjectTarget(t, ir, func(_ irgen.PkgSpec, o irgen.ObjSpec) bool {
			return o.Type.Kind == "scalar" && o.Type.Value != nil
		})
		return PassSpec{Kind: kind, Objects: []string{pkg + "." + obj}, TargetClass: class}
	case "trim_enum_values":
		return PassSpec{Kind: kind}
	case "hint_object":
		pkg, obj, class := DrawObjectTarget(t, ir, nil)
		return PassSpec{Kind: kind, Pkg: pkg, Obj: obj, TargetClass: class, Hints: map[string]irgen.Val{"skip_variant_plugin_registration": *irgen.VB(true), "custom": *irgen.VS("x")}}
	case "schema_set_identifier":
		pkg := ir[rapid.IntRange(0, len(ir)-1).Draw(t, "sipkg")].Package
		if rapid.IntRange(0, 5).Draw(t, "siabsent") == 0 {
			pkg = "nosuchpkg"
		}
		return PassSpec{Kind: kind, Pkg: pkg, Identifier: rapid.SampledFrom([]string{"Ident", "other-id"}).Draw(t, "ident")}
	case "schema_set_entry_point":
		pkg, obj, class := DrawObjectTarget(t, ir, nil)
		return PassSpec{Kind: kind, Pkg: pkg, Obj: obj, TargetClass: class}
	case "append_comment_objects":
		return PassSpec{Kind: kind, Comment: "Appended comment."}
	}
	panic("DrawAny: unknown kind " + kind)
}

func yamlStr(s string) string { return fmt.Sprintf("%q", s) }

// YAML renders the transformation as an entry of a `passes:` list, when it
// can be expressed with plain strings/lists (types are not rendered). ok is
// false otherwise.
func (p PassSpec) YAML() (string, bool) {
	list := func(items []string) string {
		q := make([]string, len(items))
		for i, s := range items {
			q[i] = yamlStr(s)
		}
		return "[" + strings.Join(q, ", ") + "]"
	}
	switch p.Kind {
	case "rename_object":
		return fmt.Sprintf("- rename_object: {from: %s, to: %s}", yamlStr(p.Pkg+"."+p.Obj), yamlStr(p.To)), true
	case "omit":
		return fmt.Sprintf("- omit: {objects: %s}", list(p.Objects)), true
	case "omit_fields":
		return fmt.Sprintf("- omit_fields: {fields: %s}", list(p.Fields)), true
	case "duplicate_object":
		s := fmt.Sprintf("- duplicate_object: {object: %s, as: %s", yamlStr(p.Pkg+"."+p.Obj), yamlStr(p.ToPkg+"."+p.To))
		if len(p.OmitFields) > 0 {
			s += ", omit_fields: " + list(p.OmitFields)
		}
		return s + "}", true
	case "fields_set_required", "fields_set_not_required":
		return fmt.Sprintf("- %s: {fields: %s}", p.Kind, list(p.Fields)), true
	case "fields_set_default":
		var parts []string
		for _, d := range p.Defaults {
			d := d
			parts = append(parts, fmt.Sprintf("%s: %s", yamlStr(d.Ref), d.Value.String()))
		}
		return fmt.Sprintf("- fields_set_default: {defaults: {%s}}", strings.Join(parts, ", ")), true
	case "replace_reference":
		return fmt.Sprintf("- replace_reference: {from: %s, to: %s}", yamlStr(p.Pkg+"."+p.Obj), yamlStr(p.ToPkg+"."+p.To)), true
	case "constant_to_enum":
		return fmt.Sprintf("- constant_to_enum: {objects: %s}", list(p.Objects)), true
	case "trim_enum_values":
		return "- trim_enum_values: {}", true
	case "schema_set_identifier":
		return fmt.Sprintf("- schema_set_identifier: {package: %s, identifier: %s}", yamlStr(p.Pkg), yamlStr(p.Identifier)), true
	case "schema_set_entry_point":
		return fmt.Sprintf("- schema_set_entry_point: {package: %s, entry_point: %s}", yamlStr(p.Pkg), yamlStr(p.Obj)), true
	case "unspec":
		return "- unspec: {}", true
	}
	return "", false
}
