// Package passgen generates parameterisations of cog's user-facing schema
// transformations relative to a given IR specification.
package passgen

import (
	"fmt"
	"sort"
	"strings"
	"unicode"

	"github.com/grafana/cog/internal/ast"
	"github.com/grafana/cog/internal/ast/compiler"
	"github.com/grafana/cog/verifharness/irgen"
	"pgregory.net/rapid"
)

// PassSpec is a JSON-able description of one transformation.
type PassSpec struct {
	Kind string `json:"kind"`
	// target object / field
	Pkg   string `json:"pkg,omitempty"`
	Obj   string `json:"obj,omitempty"`
	Field string `json:"field,omitempty"`
	// TargetClass: exact | caseflip | otherpkg | absent (how the target was drawn)
	TargetClass string `json:"target_class,omitempty"`
	// destination
	ToPkg string `json:"to_pkg,omitempty"`
	To    string `json:"to,omitempty"`

	Prefix     string            `json:"prefix,omitempty"`
	Comment    string            `json:"comment,omitempty"`
	OmitFields []string          `json:"omit_fields,omitempty"`
	Objects    []string          `json:"objects,omitempty"` // pkg.Obj
	Fields     []string          `json:"fields,omitempty"`  // pkg.Obj.field
	Type       *irgen.TypeSpec   `json:"type,omitempty"`
	NewFields  []irgen.FieldSpec `json:"new_fields,omitempty"`
	// Defaults: pkg.Obj.field -> value (a list to keep order deterministic)
	Defaults   []DefaultSpec        `json:"defaults,omitempty"`
	Hints      map[string]irgen.Val `json:"hints,omitempty"`
	Comments   []string             `json:"comments,omitempty"`
	Identifier string               `json:"identifier,omitempty"`
}

type DefaultSpec struct {
	Ref   string    `json:"ref"`
	Value irgen.Val `json:"value"`
}

func (p PassSpec) String() string {
	switch p.Kind {
	case "rename_object":
		return fmt.Sprintf("rename_object(%s.%s -> %s)[%s]", p.Pkg, p.Obj, p.To, p.TargetClass)
	case "duplicate_object":
		return fmt.Sprintf("duplicate_object(%s.%s as %s.%s omit=%v)[%s]", p.Pkg, p.Obj, p.ToPkg, p.To, p.OmitFields, p.TargetClass)
	case "replace_reference":
		return fmt.Sprintf("replace_reference(%s.%s -> %s.%s)[%s]", p.Pkg, p.Obj, p.ToPkg, p.To, p.TargetClass)
	case "prefix_object_names":
		return fmt.Sprintf("prefix_object_names(%q)", p.Prefix)
	case "unspec":
		return "unspec"
	}
	return fmt.Sprintf("%s(%s.%s.%s)[%s]", p.Kind, p.Pkg, p.Obj, p.Field, p.TargetClass)
}

func mustObjRef(s string) compiler.ObjectReference {
	r, err := compiler.ObjectReferenceFromString(s)
	if err != nil {
		panic(err)
	}
	return r
}

func mustFieldRef(s string) compiler.FieldReference {
	r, err := compiler.FieldReferenceFromString(s)
	if err != nil {
		panic(err)
	}
	return r
}

// Build constructs the compiler pass directly.
func (p PassSpec) Build() compiler.Pass {
	obj := compiler.ObjectReference{Package: p.Pkg, Object: p.Obj}
	fld := compiler.FieldReference{Package: p.Pkg, Object: p.Obj, Field: p.Field}
	switch p.Kind {
	case "rename_object":
		return &compiler.RenameObject{From: obj, To: p.To}
	case "prefix_object_names":
		return &compiler.PrefixObjectNames{Prefix: p.Prefix}
	case "duplicate_object":
		return &compiler.DuplicateObject{Object: obj, As: compiler.ObjectReference{Package: p.ToPkg, Object: p.To}, OmitFields: p.OmitFields}
	case "unspec":
		return &compiler.Unspec{}
	case "replace_reference":
		return &compiler.ReplaceReference{From: obj, To: compiler.ObjectReference{Package: p.ToPkg, Object: p.To}}
	case "omit":
		refs := make([]compiler.ObjectReference, 0, len(p.Objects))
		for _, o := range p.Objects {
			refs = append(refs, mustObjRef(o))
		}
		return &compiler.Omit{Objects: refs}
	case "omit_fields":
		refs := make([]compiler.FieldReference, 0, len(p.Fields))
		for _, f := range p.Fields {
			refs = append(refs, mustFieldRef(f))
		}
		return &compiler.OmitFields{Fields: refs}
	case "add_fields":
		fields := make([]ast.StructField, 0, len(p.NewFields))
		for _, f := range p.NewFields {
			fields = append(fields, f.Build())
		}
		return &compiler.AddFields{Object: obj, Fields: fields}
	case "add_object":
		return &compiler.AddObject{Object: obj, As: p.Type.Build(), Comments: p.Comments}
	case "retype_object":
		return &compiler.RetypeObject{Object: obj, As: p.Type.Build(), Comments: p.Comments}
	case "retype_field":
		return &compiler.RetypeField{Field: fld, As: p.Type.Build(), Comments: p.Comments}
	case "fields_set_required":
		refs := make([]compiler.FieldReference, 0, len(p.Fields))
		for _, f := range p.Fields {
			refs = append(refs, mustFieldRef(f))
		}
		return &compiler.FieldsSetRequired{Fields: refs}
	case "fields_set_not_required":
		refs := make([]compiler.FieldReference, 0, len(p.Fields))
		for _, f := range p.Fields {
			refs = append(refs, mustFieldRef(f))
		}
		return &compiler.FieldsSetNotRequired{Fields: refs}
	case "fields_set_default":
		defaults := map[compiler.FieldReference]any{}
		for _, d := range p.Defaults {
			d := d
			defaults[mustFieldRef(d.Ref)] = d.Value.Any()
		}
		return &compiler.FieldsSetDefault{DefaultValues: defaults}
	case "constant_to_enum":
		refs := make(compiler.ObjectReferences, 0, len(p.Objects))
		for _, o := range p.Objects {
			refs = append(refs, mustObjRef(o))
		}
		return &compiler.ConstantToEnum{Objects: refs}
	case "trim_enum_values":
		return &compiler.TrimEnumValues{}
	case "hint_object":
		hints := ast.JenniesHints{}
		for k, v := range p.Hints {
			v := v
			hints[k] = v.Any()
		}
		return &compiler.HintObject{Object: obj, Hints: hints}
	case "schema_set_identifier":
		return &compiler.SchemaSetIdentifier{Package: p.Pkg, Identifier: p.Identifier}
	case "schema_set_entry_point":
		return &compiler.SchemaSetEntrypoint{Package: p.Pkg, EntryPoint: p.Obj}
	case "append_comment_objects":
		return &compiler.AppendCommentObjects{Comment: p.Comment}
	}
	panic("passgen: unknown pass kind " + p.Kind)
}

// FlipCase swaps the case of every letter.
func FlipCase(s string) string {
	var sb strings.Builder
	for _, r := range s {
		switch {
		case unicode.IsUpper(r):
			sb.WriteRune(unicode.ToLower(r))
		case unicode.IsLower(r):
			sb.WriteRune(unicode.ToUpper(r))
		default:
			sb.WriteRune(r)
		}
	}
	return sb.String()
}

type target struct {
	pkg, obj, class string
}

// DrawObjectTarget draws an object target relative to the IR:
// exact : caseflip : otherpkg : absent = 4 : 2 : 1 : 1.
// filter (optional) restricts the exact candidates.
func DrawObjectTarget(t *rapid.T, ir irgen.IRSpec, filter func(p irgen.PkgSpec, o irgen.ObjSpec) bool) (pkg, obj, class string) {
	type cand struct{ pkg, obj string }
	var cands []cand
	for _, p := range ir {
		for _, o := range p.Objects {
			if filter == nil || filter(p, o) {
				cands = append(cands, cand{p.Package, o.Name})
			}
		}
	}
	if len(cands) == 0 {
		for _, p := range ir {
			for _, o := range p.Objects {
				cands = append(cands, cand{p.Package, o.Name})
			}
		}
	}
	class = rapid.SampledFrom([]string{"exact", "exact", "exact", "exact", "caseflip", "caseflip", "otherpkg", "absent"}).Draw(t, "targetclass")
	c := cands[rapid.IntRange(0, len(cands)-1).Draw(t, "targetidx")]
	switch class {
	case "exact":
		return c.pkg, c.obj, class
	case "caseflip":
		return c.pkg, FlipCase(c.obj), class
	case "otherpkg":
		// a name that exists in another package but not in c.pkg
		inPkg := map[string]bool{}
		for _, p := range ir {
			if p.Package == c.pkg {
				for _, o := range p.Objects {
					inPkg[strings.ToLower(o.Name)] = true
				}
			}
		}
		var others []string
		for _, p := range ir {
			if p.Package == c.pkg {
				continue
			}
			for _, o := range p.Objects {
				if !inPkg[strings.ToLower(o.Name)] {
					others = append(others, o.Name)
				}
			}
		}
		if len(others) == 0 {
			return c.pkg, "NoSuchObject", "absent"
		}
		sort.Strings(others)
		return c.pkg, others[rapid.IntRange(0, len(others)-1).Draw(t, "otheridx")], class
	default:
		if rapid.Bool().Draw(t, "absentpkg") {
			return "nosuchpkg", c.obj, "absent"
		}
		return c.pkg, "NoSuchObject", "absent"
	}
}

// DrawFieldTarget draws pkg.Obj.field relative to the IR.
func DrawFieldTarget(t *rapid.T, ir irgen.IRSpec) (pkg, obj, field, class string) {
	type cand struct{ pkg, obj, field string }
	var cands []cand
	for _, p := range ir {
		for _, o := range p.Objects {
			if o.Type.Kind == "struct" {
				for _, f := range o.Type.Fields {
					cands = append(cands, cand{p.Package, o.Name, f.Name})
				}
			}
		}
	}
	if len(cands) == 0 {
		return ir[0].Package, "NoSuchObject", "nofield", "absent"
	}
	class = rapid.SampledFrom([]string{"exact", "exact", "exact", "exact", "caseflip", "caseflip", "otherobj", "absent"}).Draw(t, "ftargetclass")
	c := cands[rapid.IntRange(0, len(cands)-1).Draw(t, "ftargetidx")]
	switch class {
	case "exact":
		return c.pkg, c.obj, c.field, class
	case "caseflip":
		if rapid.Bool().Draw(t, "flipobj") {
			return c.pkg, FlipCase(c.obj), c.field, class
		}
		return c.pkg, c.obj, FlipCase(c.field), class
	case "otherobj":
		// a field name of another object that this object does not have
		has := map[string]bool{}
		for _, x := range cands {
			if x.pkg == c.pkg && x.obj == c.obj {
				has[strings.ToLower(x.field)] = true
			}
		}
		for _, x := range cands {
			if !has[strings.ToLower(x.field)] {
				return c.pkg, c.obj, x.field, class
			}
		}
		return c.pkg, c.obj, "nosuchfield", "absent"
	default:
		return c.pkg, c.obj, "nosuchfield", "absent"
	}
}

var freshNames = []string{"Renamed", "Copy", "Fresh", "Brand_new", "zzNew"}

func freshName(t *rapid.T, ir irgen.IRSpec) string {
	used := map[string]bool{}
	for _, p := range ir {
		for _, o := range p.Objects {
			used[strings.ToLower(o.Name)] = true
		}
	}
	base := rapid.SampledFrom(freshNames).Draw(t, "fresh")
	name := base
	for i := 2; used[strings.ToLower(name)]; i++ {
		name = fmt.Sprintf("%s%d", base, i)
	}
	return name
}

// DrawNameChanging draws one of the name-changing transformations (C05).
func DrawNameChanging(t *rapid.T, ir irgen.IRSpec) PassSpec {
	kind := rapid.SampledFrom([]string{"rename_object", "rename_object", "prefix_object_names", "duplicate_object", "duplicate_object", "unspec", "replace_reference"}).Draw(t, "passkind")
	switch kind {
	case "rename_object":
		pkg, obj, class := DrawObjectTarget(t, ir, nil)
		return PassSpec{Kind: kind, Pkg: pkg, Obj: obj, TargetClass: class, To: freshName(t, ir)}
	case "prefix_object_names":
		return PassSpec{Kind: kind, Prefix: rapid.SampledFrom([]string{"Pre", "x_", "V2"}).Draw(t, "prefix")}
	case "duplicate_object":
		pkg, obj, class := DrawObjectTarget(t, ir, nil)
		toPkg := ir[rapid.IntRange(0, len(ir)-1).Draw(t, "topkg")].Package
		p := PassSpec{Kind: kind, Pkg: pkg, Obj: obj, TargetClass: class, ToPkg: toPkg, To: freshName(t, ir)}
		if rapid.IntRange(0, 2).Draw(t, "omitfields") == 0 {
			_, _, f, _ := DrawFieldTarget(t, ir)
			p.OmitFields = []string{f}
		}
		return p
	case "unspec":
		return PassSpec{Kind: kind}
	default: // replace_reference towards an existing object
		pkg, obj, class := DrawObjectTarget(t, ir, nil)
		toP := ir[rapid.IntRange(0, len(ir)-1).Draw(t, "rrtopkg")]
		toO := toP.Objects[rapid.IntRange(0, len(toP.Objects)-1).Draw(t, "rrtoobj")]
		return PassSpec{Kind: kind, Pkg: pkg, Obj: obj, TargetClass: class, ToPkg: toP.Package, To: toO.Name}
	}
}
